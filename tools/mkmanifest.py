#!/usr/bin/env python3
"""Writes /verif/MANIFEST.json from one table, so that it stays valid and consistent."""
import json
import os

VERIF = os.path.dirname(os.path.dirname(os.path.abspath(__file__)))

NA = {
    'C01': "pure input->output relation ('optimal' certificate of conelp/lp/socp/sdp) over data and configurations: no schedule, fault or history for a simulator to vary",
    'C02': 'Farkas certificates of the infeasibility statuses: pure input->output relation over data and configurations',
    'C03': 'KKT conditions of coneqp/qp results: pure input->output relation',
    'C04': 'KKT conditions of cpl/cp/gp results are a function of callbacks and data; its one fault corner (F refusing line-search points) is stated again in C10 and decided there',
    'C05': 'classification of planted instances is a statistical statement over an input distribution; nothing to schedule or break',
    'C06': "metamorphic relation between pairs of deterministic calls ('configurations' are arguments, not deployments): no interleaving or fault dimension",
    'C08': 'identities of the cone kernels over all vectors/dims in two implementations chosen at import time: pure functions',
    'C11': 'value/shape of modeling expressions is a function of the expression tree and variable values; no history, schedule or fault is quantified',
    'C12': 'op.solve() versus an independently formed LP is a function of the program and its data',
    'C14': 'tofile/fromfile round-trip is a function of the LP; the statement defines no behaviour for short, torn or failing reads/writes, so the only faults a simulated file system could inject lie outside the property',
    'C17': 'each BLAS wrapper is a function of its argument tuple; footprint/reference checks over that tuple space are enumeration or fuzzing, not simulation',
    'C18': 'LAPACK wrappers: defining equations over matrix inputs and flags; no state, schedule or fault',
    'C19': 'memory safety is quantified over integer argument boxes and needs a footprint oracle over that space (bounded enumeration/fuzzing); the only fault a simulator could add, allocation failure, is not in the property (DESIGN 1.3)',
}

CHECKS = {
    'C10': {
        'engine': 'faultsim', 'category': 'fault_enumeration', 'design_ref': 'DESIGN.md 5.C10',
        'text': ('Every index of every KKT factor() and solve() call made in the fault-free run of each sampled instance is failed '
                 '(ArithmeticError injected at the kktsolver seam), every LAPACK/CHOLMOD call inside them is failed before and after '
                 'its work, plus factor-fault pairs/triples on the cpl restore-and-retry path and seeded convex domain-refusal regions '
                 'for F; after each faulted solve the outcome is judged: only ValueError(rank) in start-up/iteration 0, otherwise a dict '
                 "with status 'unknown' (or an answer equal to the fault-free one after a restore / an absorbed fault), s and z strictly "
                 'interior, and accuracy fields recomputed in plain Python from the returned vectors. Exhaustive per instance; '
                 'instances (conelp, coneqp, lp, qp, socp, sdp, cpl, cp; all five KKT factories and user kktsolvers) are sampled. '
                 'Each instance is also solved without injected fault under valid but unattainable tolerances (natural numerical breakdown): '
                 'on the unchanged tree this is not contained - known finding F27 in known_findings.jsonl.'),
        'note': ('Assumes a numerical failure shows as ArithmeticError at the KKT interface or at a LAPACK/CHOLMOD wrapper called from it. '
                 'Trusted: simkit/cone_ref.py and simkit/rescheck.py (plain-Python recomputation), tolerances 1e-6 relative to term magnitudes. '
                 'cholmod and the other SuiteSparse/GLPK/DSDP modules are prebuilt wheel binaries; base/blas/lapack/misc_solvers and all *.py are built from the working tree.'),
        'technique': 'deterministic simulation with exhaustive fault-position enumeration at the KKT/LAPACK seams, seeded instances, ddmin, exact replay',
    },
    'C09': {
        'engine': 'isosim', 'category': 'exploration', 'design_ref': 'DESIGN.md 5.C09',
        'text': ('Real solver code run by real threads under a seeded baton-passing scheduler (pre-emption at every Python line of cvxopt), '
                 'plus sequential call histories with global/per-call option churn and failing calls; every result is compared bit for bit '
                 '(all fields, stdout) with the same call in a pristine forked interpreter; byte images of all arguments and a snapshot of '
                 'all module-level state (Python attributes, and the writable static data of the four C extension modules built from the tree) '
                 'are compared around every call; invalid option values must be rejected with ValueError; iterations <= effective maxiters; '
                 'reported accuracy satisfies the effective tolerances; nested GLPK/DSDP option dictionaries are part of the option model; '
                 'op.solve is exercised on multi-constraint piecewise-linear models rebuilt for every call, with unrelated modelling activity '
                 '(in-place operators on functions of other variables, objects kept alive) between and during the solves.'),
        'note': ('C calls are atomic w.r.t. Python-visible state (wrappers release the GIL only around Fortran routines on their own buffers) - '
                 'two threads inside GIL-released sections at once cannot be scheduled; C statics are covered by the static-data snapshot instead; '
                 'single-threaded OpenBLAS; sampled schedules and histories - evidence, not proof. GLPK/DSDP back-ends are prebuilt binaries.'),
        'technique': 'deterministic thread-schedule simulation (settrace yield points, seeded PCT/random/round-robin schedulers) with option-churn faults; bitwise oracle against pristine reference process',
    },
    'C07': {
        'engine': 'kktsim', 'category': 'exploration', 'design_ref': 'DESIGN.md 5.C07',
        'text': ('(a) each KKT factory driven as a stateful server through seeded histories of factor(W_i)/solve/failing-factor (real singular data '
                 'or injected LAPACK/CHOLMOD fault)/second factory on the same data, W built from its definition; residual of the documented block '
                 'system computed in plain Python after every solve, all five solvers cross-checked. (b) a monitoring kktsolver checks every W handed '
                 'out during whole conelp/coneqp/cpl solves (also under injected failures, i.e. the W restored by cpl): d,di,beta,v,r,rti invariants and W z = W^-T s = lambda. '
                 'H is handed over fully symmetric, as a lower triangle, or with junk above the diagonal.'),
        'note': 'cone_ref.py (pure Python) is the trusted reference; thresholds 1e-8/1e-9 relative to operand norms (observed ~1e-15).',
        'technique': 'deterministic simulation of factory call histories with injected factorisation faults; reference-model residual oracle; scaling-invariant monitor at the kktsolver seam',
    },
    'C13': {
        'engine': 'opsim', 'category': 'exploration', 'design_ref': 'DESIGN.md 5.C13',
        'text': ('Seeded edit/solve histories on a real modeling.op (add, delete present/absent/duplicate, objective reassignment valid/invalid, '
                 'scribbling on returned lists, solve dense/sparse) against a list-based reference model checked after every operation; '
                 'solve compared with a freshly constructed op; constructor and addconstraint argument forms incl. refused ones, sparse coefficients, '
                 'vector equalities, mixed piecewise-linear objectives, repr() counts, lists held across later edits.'),
        'note': 'Fault-free corner of the technique (no scheduler, no injected fault: refused operations are the only faults); history dimension only. Status comparisons only between decisive outcomes; values to 1e-6.',
        'technique': 'seeded operation-history simulation against an executable reference model, ddmin minimisation, exact replay',
    },
    'C15': {
        'engine': 'densesim', 'category': 'exploration', 'design_ref': 'DESIGN.md 5.C15',
        'text': ('Seeded histories of in-place and regular operations over a pool of aliased names and memoryviews of dense matrices (i/d/z, incl. 0xn, mx0) '
                 'against a column-major Python model with exact small-integer data (operators incl. %, **, block-column construction, matrix(number|matrix, size, tc), '
                 'elementwise exp/log/sqrt/cos/sin compared with math/cmath); after every operation every live name is compared with the model; '
                 'index lists / index matrices and all other operands must be left unchanged; allocator seam (guard bytes, poison-on-free, electric fence) armed.'),
        'note': 'Fault-free corner; only the history/aliasing dimension of C15 is claimed, the construction/indexing input space is sampled as a by-product. Seam build (-include seam.h).',
        'technique': 'seeded operation-history simulation over aliased references against a reference model, allocator seam as trip-wire, ddmin, exact replay',
    },
    'C16': {
        'engine': 'sparsesim', 'category': 'exploration', 'design_ref': 'DESIGN.md 5.C16',
        'text': ('Seeded histories of mutating operations on sparse matrices (indexed assignment of every index kind, V/size assignment, in-place ops, axpy/gemm/syrk '
                 'incl. partial=True; general sparse()/spdiag()/spmatrix() construction, elementwise max/min/div/mul) mirrored on a dense twin; CCS validity of every live sparse object and equality with the twin after every step; '
                 'operands (incl. index objects) unchanged; directed operand-reuse scenarios (product, in-place mutation, same product); '
                 'interpreter crashes are verdicts via the operation journal; allocator guard bytes / electric fence armed.'),
        'note': 'Fault-free corner; history dimension; the oracle is the property\'s own definition (dense image), so an error common to dense and sparse code is invisible. Exact small-integer data.',
        'technique': 'seeded operation-history simulation with dense-twin reference and CCS invariant, crash journal, allocator seam, ddmin, exact replay',
    },
    'C20': {
        'engine': 'lifesim', 'category': 'exploration', 'design_ref': 'DESIGN.md 5.C20',
        'text': ('Seeded histories of export / write-through / release / owner-drop / gc / resize / copy / pickle (protocols 0-5) / tofile-fromfile through a simulated '
                 'stream (read-only, readinto, io.BytesIO; into a fresh target or back into the exported owner) with EOF-at-byte-b, OSError, wrong-type, too-long '
                 'and None faults / buffer import (with size/tc arguments, 3-D and look-alike formats refused, source left un-exported) / structural and '
                 'in-place mutation of sparse owners / in-place operators incl. /=, %=, matrix and self operands; values that only survive exact '
                 'transport (nan, inf, denormals, 64-bit integers); model of storage + alias relation checked after every operation; '
                 'every export must pin its exporter by exactly one reference (reference-count oracle); poison-on-free / electric-fence allocator '
                 'makes a dangling export observable; a crash of the interpreter is a verdict attributed to the journalled operation.'),
        'note': 'Assumes CPython reference counting. 2-D strided/Fortran buffer sources need NumPy, which /venv lacks - out of reach. Seam build.',
        'technique': 'deterministic simulation of object-lifetime histories with stream fault injection and a poison-on-free allocator seam; reference model of storage and aliasing',
    },
}

ORDER = ['C07', 'C09', 'C10', 'C13', 'C15', 'C16', 'C20']


def main():
    enabled = [p for p in ORDER if os.path.exists(os.path.join(VERIF, 'engines', CHECKS[p]['engine'] + '.py'))]
    pending = [p for p in ORDER if p not in enabled]
    checks = []
    for p in enabled:
        c = CHECKS[p]
        checks.append({
            'property_id': p,
            'quick_cmd': './vcheck %s quick' % p,
            'thorough_cmd': './vcheck %s thorough' % p,
            'evidence_file': 'evidence/%s.json' % p,
            'replay_cmd_template': './vcheck replay {path}',
            'engine': c['engine'],
            'level_claimed': {'category': c['category'], 'text': c['text'], 'design_ref': c['design_ref']},
            'level_note': c['note'],
            'technique': c['technique'],
        })
    na = [{'property_id': k, 'reason': v} for k, v in sorted(NA.items())]
    for p in pending:
        na.append({'property_id': p, 'reason': 'engine %s not built yet (planned in DESIGN.md 5.%s); not claimed until its check exists' % (CHECKS[p]['engine'], p)})
    man = {
        'version': 1,
        'setup_cmd': "./vcheck shell /venv/bin/python -c \"import cvxopt; from simkit import cone_ref; assert cone_ref.selftest(); print('setup ok')\"",
        'hooks': {
            'guard': 'none - no source hooks were added to /repo; seams are the code\'s own callbacks (kktsolver, F, stream arguments), module attributes looked up at call time (misc.lapack, misc.cholmod, misc.kkt_*, cvxprog.cpl), sys.settrace, and a compile-time `-include simkit/alloc/seam.h` applied by the check\'s own build',
            'enable': './vcheck builds /repo\'s working tree into a private scratch directory (plain, or seam flavour for C15/C16/C20) and runs the simulator against it with PYTHONPATH; nothing is enabled inside /repo',
            'baseline_off_cmd': 'cd /repo && /venv/bin/python -m pytest -ra -q -p no:cacheprovider --timeout=900 --continue-on-collection-errors',
            'source_commits': [],
            'add_only': True,
        },
        'engines': [{'name': CHECKS[p]['engine'], 'path': 'engines/%s.py' % CHECKS[p]['engine'], 'serves_properties': [p],
                     'kind_free_text': CHECKS[p]['technique']} for p in enabled],
        'checks': checks,
        'not_applicable': sorted(na, key=lambda d: d['property_id']),
        'notes': ('All checks: `./vcheck <id> quick|thorough` (honours VERIF_SEED, VERIF_WORKERS, VERIF_UNITS, VERIF_WALL); exit 0 held, 1 VIOLATION, 2 harness error. '
                  'Known findings: known_findings.jsonl. `./vcheck suite` runs the repository test-suite on the build the checks use; '
                  '`./vcheck selftest-determinism`, `./vcheck selftest-sensitivity` are the self-tests of DESIGN 2.3/2.10.'),
    }
    with open(os.path.join(VERIF, 'MANIFEST.json'), 'w') as fh:
        json.dump(man, fh, indent=1)
    print('MANIFEST.json: %d checks, %d not_applicable' % (len(checks), len(na)))


if __name__ == '__main__':
    main()
