#!/usr/bin/env python3
"""Regenerates /verif/mutants/*.patch: realistic breaks used by `./vcheck selftest-sensitivity`.
Two sources: (a) the reverse of a `fix:` commit of /repo (the defect as it was found), (b) hand-written
replacements applied to a scratch copy of the tree.  Patch names: <property>-<name>.patch."""
import os
import shutil
import subprocess
import tempfile

REPO = '/repo'
OUT = os.path.join(os.path.dirname(os.path.dirname(os.path.abspath(__file__))), 'mutants')

REVERSE = {   # name: fix commit subject prefix
    'C09-socp-ignores-options': 'fix: socp ignores the options keyword argument',
    'C10-conelp-f6-unprotected': 'fix: conelp lets ArithmeticError from the KKT solves inside f6 escape',
    'C10-cpl-stale-statistics': 'fix: cpl reports stale statistics after restoring the saved state',
    'C10-cpl-linesearch-none': 'fix: cpl line search fails with TypeError when F refuses a trial point',
    'C07-chol2-structural-singular': 'fix: kkt_chol2 relies on potrf failing',
    'C13-delconstraint-gc': 'fix: op.delconstraint and the objective setter leave stale variables behind',
    'C16-negative-column-index': 'fix: spmatrix indexing S[slice, J] does not wrap negative entries',
    'C16-empty-index-sigfpe': 'fix: indexed assignment to a sparse matrix with an empty index list divides by zero',
    'C16-gemm-rowind': 'fix: base.gemm with dense A, sparse B and sparse C leaves row indices uninitialised',
    'C16-gemm-stride': "fix: base.gemm(A, B, C) with dense A, transA='T'",
    'C15-sparse-rhs-imag': 'fix: assigning a real sparse matrix to entries of a complex dense matrix',
    'C15-slice-1x1': 'fix: A[slice, slice] = 1x1 matrix of the same type is refused',
    'C15-irem-zero-frees-buffer': 'fix: A %= 0 frees the buffer of A',
    'C16-emax-1x1-empty-sparse': 'fix: max/min with a 1x1 sparse matrix without stored entries',
    'C16-spdiag-row-vector': 'fix: spdiag of a sparse row vector',
    'C20-refused-import-keeps-export': 'fix: refusing a buffer with 0 or more than 2 dimensions',
    'C07-chol2-stale-patterns': 'fix: kkt_chol2 reuses the sparsity patterns',
    'C15-iadd-sparse-not-inplace': 'fix: A += B and A -= B with a dense A and a sparse B',
    'C16-syrk-alpha-twice': 'fix: base.syrk with sparse A and dense C multiplies by alpha twice',
    'C16-sparse-ignores-tc': 'fix: sparse(x, tc) ignores tc',
}

CUSTOM = {
    # C07: the defect F5 as found (the fix line now has other neighbours, so the reverse patch no longer applies)
    'C07-chol2-stale-singular-flag': [('src/python/misc.py',
        "        if F['firstcall']:\n            F['singular'] = False\n            F['Hpattern'] = Hpattern\n",
        "        if F['firstcall']:\n            F['Hpattern'] = Hpattern\n")],
    # C15: integer remainder with C semantics (the defect as found; the fix was followed by another on the same line)
    'C15-int-remainder-truncates': [('src/C/base.c',
        "    ((int_t *)dest)[i] = (r != 0 && ((r < 0) != (a.i < 0))) ? r + a.i : r;\n",
        "    ((int_t *)dest)[i] = r;\n")],
    # C09: per-call work arrays hoisted into a module-level cache ("avoid re-allocating in every call")
    'C09-shared-work-arrays': [('src/python/coneprog.py',
        "    ws3, wz3 = matrix(0.0, (cdim,1)), matrix(0.0, (cdim,1))\n    def res(ux, uy, uz, utau, us, ukappa, vx, vy, vz, vtau, vs, vkappa, W,",
        "    if cdim not in _work: _work[cdim] = (matrix(0.0, (cdim,1)), matrix(0.0, (cdim,1)))\n    ws3, wz3 = _work[cdim]\n    def res(ux, uy, uz, utau, us, ukappa, vx, vy, vz, vtau, vs, vkappa, W,"),
        ('src/python/coneprog.py', "__all__ = []\noptions = {}\n", "__all__ = []\noptions = {}\n_work = {}\n")],
    # C09: a call records the defaults it used in the options dictionary it was given
    'C09-writes-defaults-into-options': [('src/python/coneprog.py',
        "    FEASTOL = options.get('feastol',1e-7)\n    if not isinstance(FEASTOL,(float,int,long)) or FEASTOL <= 0.0:\n        raise ValueError(\"options['feastol'] must be a positive scalar\")\n\n    show_progress = options.get('show_progress', True)\n\n    if kktsolver is None:\n        if dims and (dims['q'] or dims['s']):\n            kktsolver = 'qr'",
        "    FEASTOL = options.setdefault('feastol',1e-7)\n    if not isinstance(FEASTOL,(float,int,long)) or FEASTOL <= 0.0:\n        raise ValueError(\"options['feastol'] must be a positive scalar\")\n\n    show_progress = options.get('show_progress', True)\n\n    if kktsolver is None:\n        if dims and (dims['q'] or dims['s']):\n            kktsolver = 'qr'")],
    # C09: "never fewer than 10 iterations" slipped into conelp's option handling
    'C09-conelp-maxiters-floor': [('src/python/coneprog.py',
        "    MAXITERS = options.get('maxiters',100)\n    if not isinstance(MAXITERS,(int,long)) or MAXITERS < 1:\n        raise ValueError(\"options['maxiters'] must be a positive integer\")\n\n    ABSTOL = options.get('abstol',1e-7)\n    if not isinstance(ABSTOL,(float,int,long)):\n        raise ValueError(\"options['abstol'] must be a scalar\")\n\n    RELTOL = options.get('reltol',1e-6)\n    if not isinstance(RELTOL,(float,int,long)):\n        raise ValueError(\"options['reltol'] must be a scalar\")\n\n    if RELTOL <= 0.0 and ABSTOL <= 0.0 :\n        raise ValueError(\"at least one of options['reltol'] and \" \\\n            \"options['abstol'] must be positive\")\n\n    FEASTOL = options.get('feastol',1e-7)\n    if not isinstance(FEASTOL,(float,int,long)) or FEASTOL <= 0.0:\n        raise ValueError(\"options['feastol'] must be a positive scalar\")\n\n    show_progress = options.get('show_progress', True)\n\n    if kktsolver is None:\n        if dims and (dims['q'] or dims['s']):\n            kktsolver = 'qr'",
        "    MAXITERS = options.get('maxiters',100)\n    if not isinstance(MAXITERS,(int,long)) or MAXITERS < 1:\n        raise ValueError(\"options['maxiters'] must be a positive integer\")\n    MAXITERS = max(MAXITERS, 10)\n\n    ABSTOL = options.get('abstol',1e-7)\n    if not isinstance(ABSTOL,(float,int,long)):\n        raise ValueError(\"options['abstol'] must be a scalar\")\n\n    RELTOL = options.get('reltol',1e-6)\n    if not isinstance(RELTOL,(float,int,long)):\n        raise ValueError(\"options['reltol'] must be a scalar\")\n\n    if RELTOL <= 0.0 and ABSTOL <= 0.0 :\n        raise ValueError(\"at least one of options['reltol'] and \" \\\n            \"options['abstol'] must be positive\")\n\n    FEASTOL = options.get('feastol',1e-7)\n    if not isinstance(FEASTOL,(float,int,long)) or FEASTOL <= 0.0:\n        raise ValueError(\"options['feastol'] must be a positive scalar\")\n\n    show_progress = options.get('show_progress', True)\n\n    if kktsolver is None:\n        if dims and (dims['q'] or dims['s']):\n            kktsolver = 'qr'")],
    # C09: the caller's h is scaled in place around one product and restored ("saves a temporary"); exact in
    # floating point, so invisible sequentially and before/after — only a sibling thread that shares h sees it
    'C09-temporary-inplace-scaling-of-h': [('src/python/coneprog.py',
        "        # rz = hrz - h*tau\n        #    = s + G*x - h*tau\n        blas.scal(0, rz)\n        blas.axpy(hrz, rz)\n        blas.axpy(h, rz, alpha = -tau)",
        "        # rz = hrz - h*tau\n        #    = s + G*x - h*tau\n        blas.scal(0, rz)\n        blas.axpy(hrz, rz)\n        blas.scal(2.0, h)\n        blas.axpy(h, rz, alpha = -0.5*tau)\n        blas.scal(0.5, h)")],
    # C10: coneqp no longer guards the factorisation in the main loop
    'C10-coneqp-factor-unprotected': [('src/python/coneprog.py',
        "        try: f3 = kktsolver(W)\n        except ArithmeticError:\n            if iters == 0:\n                raise ValueError(\"Rank(A) < p or Rank([P; A; G]) < n\")\n            else:\n                ind = dims['l'] + sum(dims['q'])\n                for m in dims['s']:\n                    misc.symm(s, m, ind)\n                    misc.symm(z, m, ind)\n                    ind += m**2\n                ts = misc.max_step(s, dims)\n                tz = misc.max_step(z, dims)\n                if show_progress:\n                    print(\"Terminated (singular KKT matrix).\")\n                return { 'x': x,  'y': y,  's': s,  'z': z,\n                    'status': 'unknown', 'gap': gap,",
        "        try: f3 = kktsolver(W)\n        except ArithmeticError:\n            if iters == 0:\n                raise ValueError(\"Rank(A) < p or Rank([P; A; G]) < n\")\n            else:\n                ind = dims['l'] + sum(dims['q'])\n                for m in dims['s']:\n                    misc.symm(s, m, ind)\n                    misc.symm(z, m, ind)\n                    ind += m**2\n                ts = misc.max_step(s, dims)\n                tz = misc.max_step(z, dims)\n                if show_progress:\n                    print(\"Terminated (singular KKT matrix).\")\n                return { 'x': x,  'y': y,  's': s,  'z': z,\n                    'status': 'optimal', 'gap': gap,")],
    # C10/C07: the restore block of cpl forgets to restore z
    'C10-cpl-restore-forgets-z': [('src/python/cvxprog.py',
        "                blas.copy(s0, s); blas.copy(z0, z)\n                blas.copy(lmbda0, lmbda)\n                blas.copy(lmbdasq, lmbdasq0)",
        "                blas.copy(s0, s)\n                blas.copy(lmbda0, lmbda)\n                blas.copy(lmbdasq, lmbdasq0)")],
    # C07: kkt_ldl keeps the pivot array of the previous factorisation when the new one has the same size (stale ipiv reuse)
    'C07-ldl2-skips-refactor-scale': [('src/python/misc.py',
        "            scale(g, W, trans = 'T', inverse = 'I')\n            scale(g, W, inverse = 'I')\n            if mnl: base.gemv(Df, g, K, trans = 'T', beta = 1.0, n = n-k, \n                offsetA = mnl*k, offsety = (ldK + 1)*k)",
        "            scale(g, W, trans = 'T', inverse = 'I')\n            scale(g, W, trans = 'T', inverse = 'I')\n            if mnl: base.gemv(Df, g, K, trans = 'T', beta = 1.0, n = n-k, \n                offsetA = mnl*k, offsety = (ldK + 1)*k)")],
    # C13: addconstraint forgets the bookkeeping for variables that are already known
    'C13-addconstraint-skips-known-variable': [('src/python/modeling.py',
        "            if c.type() == '<':\n                if v in self._variables:\n                    self._variables[v]['i'] += [c]\n                else:\n                    self._variables[v] = {'o': False, 'i': [c], 'e': []}",
        "            if c.type() == '<':\n                if v in self._variables:\n                    pass\n                else:\n                    self._variables[v] = {'o': False, 'i': [c], 'e': []}")],
    # C13: inequalities() hands out the internal list
    'C13-inequalities-not-copied': [('src/python/modeling.py',
        "        \"\"\" Returns a list of inequality constraints of the LP.\"\"\"\n        \n        return list(self._inequalities)",
        "        \"\"\" Returns a list of inequality constraints of the LP.\"\"\"\n        \n        return self._inequalities")],
    # C20: the buffer export forgets to take a reference to the exporter
    'C20-getbuffer-missing-incref': [('src/C/dense.c',
        "  view->obj = (PyObject*)self;\n  view->internal = NULL;\n\n  Py_INCREF(self);\n  self->ob_exports++;",
        "  view->obj = (PyObject*)self;\n  view->internal = NULL;\n\n  self->ob_exports++;")],
    # C20: fromfile copies what it got before checking the length
    'C20-fromfile-copies-before-length-check': [('src/C/dense.c',
        "  if (PyBytes_GET_SIZE(b) != E_SIZE[self->id]*MAT_LGT(self)) {\n    PyErr_SetString(PyExc_EOFError,\n        \"read() didn't return enough bytes\");\n    Py_DECREF(b);\n    return NULL;\n  }\n",
        "  memcpy(self->buffer, PyBytes_AS_STRING(b), PyBytes_GET_SIZE(b) < E_SIZE[self->id]*MAT_LGT(self) ? PyBytes_GET_SIZE(b) : E_SIZE[self->id]*MAT_LGT(self));\n  if (PyBytes_GET_SIZE(b) != E_SIZE[self->id]*MAT_LGT(self)) {\n    PyErr_SetString(PyExc_EOFError,\n        \"read() didn't return enough bytes\");\n    Py_DECREF(b);\n    return NULL;\n  }\n")],
    # C15: in-place subtraction with a 1x1 matrix operand uses the first element of self as scalar
    'C15-resize-refused-when-exported': [('src/C/dense.c',
        "matrix_set_size(matrix *self, PyObject *value, void *closure)\n{",
        "matrix_set_size(matrix *self, PyObject *value, void *closure)\n{\n  if (self->ob_exports > 0) PY_ERR_INT(PyExc_TypeError, \"cannot resize an exported matrix\");")],
    # C16: V assignment accepts a vector that is one too short
    'C16-column-fastpath-off-by-one': [('src/C/sparse.c',
        "      j = (Jl ? CWRAP(MAT_BUFI(Jl)[colcnt],SP_NCOLS(self)) :\n          colstart + colcnt*colstep);\n\n      if (rowstart == 0 && rowstop == SP_NROWS(self) && rowstep == 1) {\n        /* copy entire column */\n        colptr[colcnt+1] = colptr[colcnt] + SP_COL(self)[j+1] - SP_COL(self)[j];",
        "      j = (Jl ? CWRAP(MAT_BUFI(Jl)[colcnt],SP_NCOLS(self)) :\n          colstart + colcnt*colstep);\n\n      if (rowstart == 0 && rowstop >= SP_NROWS(self)-1 && rowstep == 1) {\n        /* copy entire column */\n        colptr[colcnt+1] = colptr[colcnt] + SP_COL(self)[j+1] - SP_COL(self)[j];")],
}


def main():
    os.makedirs(OUT, exist_ok=True)
    for f in os.listdir(OUT):
        if f.endswith('.patch'):
            os.unlink(os.path.join(OUT, f))
    log = subprocess.run(['git', '-C', REPO, 'log', '--format=%H %s'], stdout=subprocess.PIPE, text=True).stdout.strip().split('\n')
    for name, subj in REVERSE.items():
        hit = [l.split(' ', 1)[0] for l in log if l.split(' ', 1)[1].startswith(subj)]
        if not hit:
            print('!! no commit for', name)
            continue
        d = subprocess.run(['git', '-C', REPO, 'show', '-R', '--format=', hit[0]], stdout=subprocess.PIPE, text=True).stdout
        open(os.path.join(OUT, name + '.patch'), 'w').write(d)
    for name, edits in CUSTOM.items():
        tmp = tempfile.mkdtemp(prefix='mut-')
        try:
            subprocess.check_call(['git', '-C', REPO, 'worktree', 'add', '-q', '--detach', tmp + '/w', 'HEAD'])
            ok = True
            for path, old, new in edits:
                p = os.path.join(tmp, 'w', path)
                s = open(p).read()
                if s.count(old) != 1:
                    print('!! pattern for %s occurs %d times in %s' % (name, s.count(old), path))
                    ok = False
                    break
                open(p, 'w').write(s.replace(old, new))
            if ok:
                d = subprocess.run(['git', '-C', tmp + '/w', 'diff'], stdout=subprocess.PIPE, text=True).stdout
                open(os.path.join(OUT, name + '.patch'), 'w').write(d)
        finally:
            subprocess.call(['git', '-C', REPO, 'worktree', 'remove', '--force', tmp + '/w'])
            shutil.rmtree(tmp, ignore_errors=True)
    print(sorted(os.listdir(OUT)))


if __name__ == '__main__':
    main()
