#!/venv/bin/python
"""Build cvxopt from a source tree into <outdir>/cvxopt so that it can be imported with PYTHONPATH=<outdir>.
usage: /venv/bin/python /tmp/seedtools/build.py <source tree> <outdir>
base/blas/lapack/misc_solvers are compiled from <tree>/src/C, the *.py are copied from <tree>/src/python,
the other extension modules (cholmod, umfpack, amd, glpk, dsdp, gsl, fftw) cannot be rebuilt here and are
copied from the installed wheel."""
import os, shutil, subprocess, sys, sysconfig
from concurrent.futures import ThreadPoolExecutor
tree, dest = os.path.abspath(sys.argv[1]), os.path.abspath(sys.argv[2])
WHEEL = '/venv/lib/python3.12/site-packages/cvxopt'
SUFFIX = sysconfig.get_config_var('EXT_SUFFIX'); INC = sysconfig.get_paths()['include']
pkg = os.path.join(dest, 'cvxopt'); obj = os.path.join(dest, 'obj')
shutil.rmtree(dest, ignore_errors=True); os.makedirs(pkg); os.makedirs(obj)
mods = {'base': ['base.c', 'dense.c', 'sparse.c'], 'blas': ['blas.c'], 'lapack': ['lapack.c'], 'misc_solvers': ['misc_solvers.c']}
csrc = os.path.join(tree, 'src', 'C')
def run(cmd):
    p = subprocess.run(cmd, stdout=subprocess.PIPE, stderr=subprocess.STDOUT, text=True)
    if p.returncode: print(p.stdout); sys.exit('BUILD FAILED: ' + ' '.join(cmd))
jobs = [['gcc', '-fno-strict-overflow', '-DNDEBUG', '-O2', '-fPIC', '-w', '-I', INC, '-I', csrc, '-c', os.path.join(csrc, s), '-o', os.path.join(obj, s[:-2] + '.o')] for m in mods.values() for s in m]
with ThreadPoolExecutor(6) as ex: list(ex.map(run, jobs))
for m, srcs in mods.items():
    run(['gcc', '-shared', '-o', os.path.join(pkg, m + SUFFIX)] + [os.path.join(obj, s[:-2] + '.o') for s in srcs] + ['-llapack', '-lblas', '-lm'])
for f in os.listdir(os.path.join(tree, 'src', 'python')):
    if f.endswith('.py'): shutil.copy(os.path.join(tree, 'src', 'python', f), pkg)
if not os.path.exists(os.path.join(pkg, '_version.py')): open(os.path.join(pkg, '_version.py'), 'w').write("__version__ = '0+local'\n")
for m in ['cholmod', 'umfpack', 'amd', 'glpk', 'dsdp', 'gsl', 'fftw']: shutil.copy(os.path.join(WHEEL, m + SUFFIX), pkg)
os.symlink('/venv/lib/python3.12/site-packages/cvxopt.libs', os.path.join(dest, 'cvxopt.libs'))
shutil.rmtree(obj)
print('built: PYTHONPATH=%s' % dest)
