#!/usr/bin/env python3
"""Independent confirmation of a seeded change (seeded/<id>/patch.diff + demo.py): in a fresh scratch
worktree of /repo HEAD: patch applies; tree builds; the 36 tests pass on that build; demo exits != 0
with the change and 0 without.  Then the property's quick check is run against /repo with the patch
applied (git apply ... ; check ; git checkout -- .).  Writes seeded/<id>/meta.json."""
import json, os, shutil, subprocess, sys, tempfile, time
VERIF = os.path.dirname(os.path.dirname(os.path.abspath(__file__)))
REPO = '/repo'
PY = '/venv/bin/python'

def sh(cmd, **kw):
    return subprocess.run(cmd, stdout=subprocess.PIPE, stderr=subprocess.STDOUT, text=True, **kw)

def build(tree, dest):
    return sh([PY, os.path.join(VERIF, 'tools', 'seedbuild.py'), tree, dest])

def tests(tree, dest):
    env = dict(os.environ, PYTHONPATH=dest, OPENBLAS_NUM_THREADS='1')
    p = sh([PY, '-m', 'pytest', '-q', '-p', 'no:cacheprovider', '-rA', '.'], cwd=os.path.join(tree, 'tests'), env=env)
    return sum(1 for l in p.stdout.split('\n') if l.startswith('PASSED')), sum(1 for l in p.stdout.split('\n') if l.startswith(('FAILED', 'ERROR')))

def demo(path, dest):
    env = dict(os.environ, PYTHONPATH=dest, OPENBLAS_NUM_THREADS='1')
    p = sh(['timeout', '300', PY, path], cwd='/tmp', env=env)
    return p.returncode, p.stdout[-400:]

def main(sid, props):
    d = os.path.join(VERIF, 'seeded', sid)
    meta = {'id': sid, 'property': props[0], 'patch': 'patch.diff', 'demonstration': 'demo.py', 'author': 'independent sub-agent (saw only the property text and its own scratch worktree)'}
    tmp = tempfile.mkdtemp(prefix='seedv-')
    wt = os.path.join(tmp, 'w'); b1 = os.path.join(tmp, 'b_with'); b0 = os.path.join(tmp, 'b_without')
    try:
        subprocess.check_call(['git', '-C', REPO, 'worktree', 'add', '-q', '--detach', wt, 'HEAD'])
        meta['repo_head'] = sh(['git', '-C', REPO, 'rev-parse', '--short', 'HEAD']).stdout.strip()
        r = build(wt, b0); assert r.returncode == 0, r.stdout
        rc0, out0 = demo(os.path.join(d, 'demo.py'), b0)
        a = sh(['git', '-C', wt, 'apply', os.path.join(d, 'patch.diff')])
        meta['applies'] = a.returncode == 0
        r = build(wt, b1)
        meta['builds'] = r.returncode == 0
        p, f = tests(wt, b1)
        meta['tests_with_change'] = {'passed': p, 'failed': f}
        rc1, out1 = demo(os.path.join(d, 'demo.py'), b1)
        meta['demo_exit_without_change'] = rc0
        meta['demo_exit_with_change'] = rc1
        meta['demo_output_with_change'] = out1.strip().split('\n')[-3:]
        meta['confirmed'] = bool(meta['applies'] and meta['builds'] and p == 36 and f == 0 and rc0 == 0 and rc1 != 0)
    finally:
        subprocess.call(['git', '-C', REPO, 'worktree', 'remove', '--force', wt], stdout=subprocess.DEVNULL, stderr=subprocess.DEVNULL)
        shutil.rmtree(tmp, ignore_errors=True)
    notes = open(os.path.join(d, 'notes.md')).read()
    meta['needs_to_manifest'] = notes[:1500]
    # ---- my checks against it
    meta['checks'] = {}
    scratch = bool(os.environ.get('SEEDVERIFY_SCRATCH'))
    tmp2 = None
    if scratch:
        # a background soak is using /repo: run the checks against a scratch worktree with the patch applied
        # (VERIF_REPO) instead of patching /repo itself
        tmp2 = tempfile.mkdtemp(prefix='seedc-')
        target = os.path.join(tmp2, 'w')
        subprocess.check_call(['git', '-C', REPO, 'worktree', 'add', '-q', '--detach', target, 'HEAD'])
    else:
        target = REPO
        st = sh(['git', '-C', REPO, 'status', '--porcelain', '--untracked-files=no']).stdout.strip()
        assert not st, 'repo dirty: ' + st
    try:
        a = sh(['git', '-C', target, 'apply', os.path.join(d, 'patch.diff')]); assert a.returncode == 0, a.stdout
        for prop in props:
            t0 = time.time()
            env = dict(os.environ, VERIF_MAX_REPORT='3', VERIF_EVIDENCE_DIR=os.path.join(d, '.evidence-of-run-against-seed'))
            if scratch:
                env['VERIF_REPO'] = target
            p = sh([os.path.join(VERIF, 'vcheck'), prop, 'quick'], cwd=VERIF, env=env)
            classes = [l.strip()[7:] for l in p.stdout.split('\n') if l.strip().startswith('class: ')]
            viol = [l for l in p.stdout.split('\n') if l.startswith('VIOLATION ')]
            meta['checks'][prop] = {'cmd': './vcheck %s quick' % prop, 'exit': p.returncode, 'caught': p.returncode == 1 and bool(viol),
                                    'violation_classes': classes[:4], 'seconds': round(time.time() - t0, 1)}
            for l in viol:
                path = l.split('replay=')[-1].strip()
                keep = os.path.join(d, 'replay-%s-%s' % (prop, os.path.basename(path)))
                if os.path.exists(path):
                    shutil.move(path, keep)
    finally:
        if scratch:
            subprocess.call(['git', '-C', REPO, 'worktree', 'remove', '--force', target], stdout=subprocess.DEVNULL, stderr=subprocess.DEVNULL)
            shutil.rmtree(tmp2, ignore_errors=True)
        else:
            sh(['git', '-C', REPO, 'checkout', '--', '.'])
    how = ('scratch worktree of /repo HEAD with patch.diff applied, VERIF_REPO=<it> ' if scratch else 'git -C /repo apply patch.diff; ')
    meta['what_was_run'] = ['fresh scratch worktree of /repo HEAD: build without change -> demo; git apply patch.diff; build; pytest tests/ on that build; demo',
                            how + '; '.join('./vcheck %s quick' % p for p in props) + ('' if scratch else '; git -C /repo checkout -- .')]
    json.dump(meta, open(os.path.join(d, 'meta.json'), 'w'), indent=1)
    print(sid, 'confirmed=%s' % meta['confirmed'], 'tests', meta['tests_with_change'], 'demo', meta['demo_exit_without_change'], meta['demo_exit_with_change'],
          {k: (v['caught'], v['violation_classes'][:2]) for k, v in meta['checks'].items()})

if __name__ == '__main__':
    main(sys.argv[1], sys.argv[2:])
