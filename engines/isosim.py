"""isosim — C09: solver calls are isolated, configurable and repeatable (DESIGN 5.C09).

Clients are real threads running the real solvers under the seeded scheduler of simkit.sched
(concurrent mode), or one client running a call history with global-option churn (history mode).
Every call is compared bit for bit with the same call in a pristine forked interpreter.
"""
import io
import json
import random
import sys
import os
import contextlib

from simkit import core, gen, sched as S, oracles as O

NAME = 'isosim'
PROPERTY = 'C09'
LEVEL = 'exploration'
RULE = ('one evaluation = one simulated run: a pool of 2-5 seeded instances (conelp, coneqp, lp, qp, socp, sdp, cpl, cp, gp, op.solve, '
        'lp/op with GLPK, sdp with DSDP), either 2-4 client threads interleaved by a seeded scheduler (random pre-emption p in '
        '{.002,.02,.2,.5}, PCT d in {1,2,3}, round-robin, sequential) with an optional client that churns/garbles the global option '
        'dictionary, or one client with a 4-12 call history with global set/del/clear between calls. non-trivial = concurrent run with '
        '>=1 context switch while >=2 solves were in progress, or history with >=3 solves and >=1 option change between them; '
        'distinct = distinct digest of (program, switch list with code sites).')
SIM_TIME_NOTE = 'no clock in the system under test; sim_steps = scheduler yield points (Python line/call events inside the cvxopt package)'
STUBS = ['scheduler: real threads, simulated choice of who runs (baton passing at settrace line events)',
         'option churn client (simulated sibling that owns solvers.options)',
         'pristine reference: the same freshly built tree in a forked child that ran nothing before the call']
ASSUMPTIONS = ['C-extension calls are atomic w.r.t. Python-visible state (BLAS/LAPACK wrappers drop the GIL only around Fortran routines that touch their argument buffers)',
               'OPENBLAS_NUM_THREADS=1 (bit-reproducible BLAS); GLPK/DSDP/CHOLMOD are the prebuilt wheel binaries',
               'schedules and histories are sampled: a clean batch is evidence, not proof']
TIERS = {'quick': {'units': 72, 'wall_cap': 80.0, 'unit_timeout': 300.0},
         'thorough': {'units': 4000, 'wall_cap': 1150.0, 'unit_timeout': 400.0}}
RUNS_PER_UNIT = 12

NATIVE = ('conelp', 'coneqp', 'lp', 'qp', 'socp', 'sdp', 'cpl', 'cp', 'gp', 'op')
KINDS = ['conelp', 'coneqp', 'lp', 'qp', 'socp', 'socp', 'sdp', 'cpl', 'cp', 'gp', 'op', 'lp', 'conelp']
EXT = ['lp_glpk', 'op_glpk', 'sdp_dsdp']
STEP_PER_ITER_BOUND = 60000      # calibrated: see DESIGN 8 (max observed ~1.2e3 per iteration; x >=20)


_CSTATE = [None]


def warmup():
    import cvxopt
    from cvxopt import solvers, misc, cvxprog, coneprog, modeling, printing, cholmod, umfpack, amd, lapack, blas  # noqa
    try:
        from cvxopt import glpk
        glpk.options['msg_lev'] = 'GLP_MSG_OFF'
    except ImportError:
        pass
    try:
        from cvxopt import dsdp  # noqa
    except ImportError:
        pass
    if _CSTATE[0] is None:
        _CSTATE[0] = O.CState()


# ----------------------------------------------------------------------------- instances

def gen_instance(rng, allow_ext=True):
    kind = rng.choice(KINDS + (EXT if allow_ext and rng.random() < 0.5 else []))
    solver = None
    if kind == 'lp_glpk':
        kind, solver = 'lp', 'glpk'
    elif kind == 'op_glpk':
        kind, solver = 'op', 'glpk'
    elif kind == 'sdp_dsdp':
        kind, solver = 'sdp', 'dsdp'
    if kind in ('cpl', 'cp'):
        inst = gen.gen_cpl(rng, kind)
    elif kind == 'gp':
        inst = gen.gen_gp(rng)
    elif kind == 'op':
        inst = gen_model(rng) if rng.random() < 0.6 else gen.gen_op(rng)
    else:
        if kind in ('lp', 'qp'):
            dims = {'l': rng.randint(2, 7), 'q': [], 's': []}
        elif kind == 'socp':
            dims = gen.gen_dims(rng, allow_s=False)
            if not dims['q']:
                dims['q'] = [rng.randint(2, 4)]
        elif kind == 'sdp':
            dims = gen.gen_dims(rng, allow_q=False)
            if not dims['s']:
                dims['s'] = [rng.choice([2, 3])]
        else:
            dims = gen.gen_dims(rng)
        p = 0 if solver == 'dsdp' else None
        if kind in ('coneqp', 'qp') and rng.random() < 0.15:
            inst = gen.gen_eqqp(rng, kind)          # no inequalities at all: G, h (and dims) are None, direct solve
        else:
            inst = gen.gen_conelp(rng, kind, dims=dims, qp=kind in ('coneqp', 'qp'), ml_ge_n=kind in ('lp', 'qp'), p=p)
        if solver is None:
            gen.add_startpoints(rng, inst)
            r_ = rng.random()
            if kind in ('conelp', 'lp', 'socp', 'sdp') and r_ < 0.12:
                inst = gen.make_infeasible(inst)
            elif kind in ('conelp', 'lp', 'socp', 'sdp') and r_ < 0.24:
                inst = gen.make_unbounded(inst, rng)
            elif kind in ('conelp', 'sdp') and inst['dims']['s'] and rng.random() < 0.6:
                # junk in the unreferenced strictly upper triangles of the start points' 's' blocks
                for sp_, key in (('primalstart', 's'), ('dualstart', 'z')):
                    if sp_ in inst:
                        inst[sp_] = dict(inst[sp_])
                        inst[sp_][key] = gen.junk_upper_triangles(rng, inst, inst[sp_][key])
    inst.pop('planted', None)
    if kind in ('conelp', 'coneqp') and solver is None and rng.random() < 0.2:
        # semidefinite blocks of order zero are legal (they contribute no rows): the caller's dims must
        # come back exactly as given
        ss = list(inst['dims']['s'])
        for _ in range(rng.randint(1, 2)):
            ss.insert(rng.randrange(len(ss) + 1), 0)
        inst['dims'] = dict(inst['dims'], s=ss)
    if kind in ('cpl', 'cp') and allow_ext and rng.random() < 0.2:
        inner = gen_instance(rng, allow_ext=False)      # any native entry point, cpl/cp included (no further nesting)
        iopts = gen_opts(rng, 1.0)
        iopts['show_progress'] = False      # what the inner solve prints would be attributed to the outer call
        iopts.pop('debug', None)
        if invalid_reason(iopts, inner) is not None:       # (one-sided tolerances can combine into an invalid pair)
            iopts.pop('abstol', None)
            iopts.pop('reltol', None)
        inst['nested'] = {'inst': inner, 'at': sorted(rng.sample(range(2, 14), rng.randint(1, 3))), 'opts': iopts}
    inst['solver'] = solver
    if kind in ('cpl', 'cp') and 'nested' not in inst and rng.random() < 0.08:
        inst['F_aborts_at'] = rng.randint(2, 9)        # the user's F raises in the middle of the solve
    if kind in ('conelp', 'lp') and 'primalstart' in inst and inst['dims']['l'] > 0 and rng.random() < 0.15:
        ps_ = dict(inst['primalstart'])
        ps_['s'] = [-abs(ps_['s'][0]) - 1.0] + list(ps_['s'][1:])      # not in the cone: refused after the set-up work
        inst['primalstart'] = ps_
    if inst.get('p') == 0 and kind not in ('gp', 'op') and solver is None and rng.random() < 0.25:
        inst['pass_empty_A'] = True         # A, b given as 0 x n and 0 x 1 matrices instead of None
    if kind in ('conelp', 'lp') and 'dualstart' in inst and inst.get('p', 0) > 0 and 'y' in inst['dualstart'] and rng.random() < 0.3:
        inst['dualstart'] = {k_: v_ for k_, v_ in inst['dualstart'].items() if k_ != 'y'}
    if kind in ('conelp', 'coneqp', 'cpl', 'cp') and not (inst['dims']['q'] or inst['dims']['s']) and rng.random() < 0.3:
        inst['dims_none'] = True
    # KKT path
    if solver is None and kind not in ('gp', 'op'):
        dims = inst['dims']
        from engines.faultsim import NAMED
        names = [k for k in NAMED[kind] if not (k == 'chol2' and (dims['q'] or dims['s']))]
        if kind not in ('cpl', 'cp') and dims['l'] < inst['n']:
            names = [k for k in names if k != 'chol2'] or names
            inst['kkt'] = rng.choice(names)
        else:
            inst['kkt'] = rng.choice(names + ['default', 'default'])
    else:
        inst['kkt'] = 'default'
    return inst


def gen_model(rng):
    """an op with several constraint objects over several variables, piecewise-linear parts included
    (the pool language of opsim): op.solve() is one of the property's entry points, and what it
    shares with other models lives in the modeling layer, not in the solvers"""
    from engines import opsim
    pool = opsim.gen_pool(rng)
    nv = len(pool['variables'])
    sel = list(range(2 * nv)) + [i for i in range(2 * nv, len(pool['constraints'])) if rng.random() < 0.6]
    if rng.random() < 0.3:
        sel.append(rng.choice(sel[2 * nv:] or sel))      # the same constraint object twice
    rng.shuffle(sel)
    objs = [i for i, o in enumerate(pool['objectives']) if opsim.obj_valid(o)]
    return {'kind': 'op', 'model': pool, 'cons': sel, 'obj': rng.choice(objs), 'format': rng.choice(['dense', 'sparse']), 'resolve': bool(rng.random() < 0.4),
            'n': sum(v['n'] for v in pool['variables']), 'p': 0, 'dims': {'l': len(sel), 'q': [], 's': []}}


class RepeatSolveDiffers(Exception):
    pass


class UserAbort(Exception):
    """raised by the simulated user's F in the middle of a solve"""


def solve_model(inst, options=None, solver='default'):
    from cvxopt import modeling
    from engines import opsim
    vs, cons, objective = opsim.build(inst['model'])
    used = [cons[i] for i in inst['cons']]
    prob = modeling.op(objective(inst['model']['objectives'][inst['obj']]), used)
    kw = {}
    if options is not None:
        kw['options'] = options
    prob.solve(inst.get('format', 'dense'), solver, **kw)
    if inst.get('resolve'):
        # the same op object solved again, now that its variables and multipliers hold values: the call is
        # the same call, so is the result
        first = O.bits({'status': prob.status, 'x': [v.value for v in vs], 'm': [c.multiplier.value for c in used]})
        prob.solve(inst.get('format', 'dense'), solver, **(dict(kw, options=dict(options)) if options is not None else kw))
        second = O.bits({'status': prob.status, 'x': [v.value for v in vs], 'm': [c.multiplier.value for c in used]})
        if first != second:
            raise RepeatSolveDiffers('solving the same op object a second time gave another result (status %r)' % prob.status)
    # without an optimal point the variables have no value and objective.value() has nothing to evaluate
    return {'status': prob.status, 'x': [v.value for v in vs], 'multipliers': [c.multiplier.value for c in used],
            'objective': prob.objective.value() if prob.status == 'optimal' else None}


_JUNK = []


def model_noise(seed):
    """modelling activity that has nothing to do with any of the solves: functions over its own
    variables, in-place scaling and shifting, constraints, an op that is never solved.  Some of the
    objects stay alive for a while, so that later objects live at other addresses."""
    from cvxopt import matrix, modeling as M
    rng = random.Random(seed)
    n = rng.randint(1, 3)
    x, y = M.variable(n, 'nx'), M.variable(1)
    keep = [x, y]
    lin = []
    for _ in range(rng.randint(2, 6)):
        r = rng.randrange(11)
        a = rng.choice([2.0, 0.5, -1.5, 3, 4.0])
        if r == 0:
            f = +x
            f *= a
            lin.append(f)
        elif r == 1:
            f = -x
            f *= a
            lin.append(f)
        elif r == 2:
            f = abs(x)
            f *= abs(a)
        elif r == 3:
            f = M.max(x, y)
            f *= abs(a)
        elif r == 4:
            f = +y
            f /= a
            lin.append(f)
        elif r == 5:
            f = x + y
            f += x
            f -= 1.0
            lin.append(f)
        elif r == 6:
            f = M.sum(abs(x))
            f *= 2.0
            f += y
        elif r == 7:
            f = M.min(x, 1.0)
            f *= 0.5
        elif r == 8:
            f = M.dot(matrix(1.0, (n, 1)), x)
            f *= a
            f /= 2.0
            lin.append(f)
        elif r == 9:
            f = x[0]
            f *= a
            f += 2.0 * y
            lin.append(f)
        else:
            x.value = matrix([float(i) for i in range(n)])
            y.value = matrix(a, tc='d')
            f = (abs(x) + y)
            f.value()
        keep.append(f)
    cs = [(f <= 1.0) for f in lin] + [x >= -2.0, y == 0.25]
    for c in cs:
        c.name = 'noise'
    pr = M.op(M.sum(x) + y, cs)
    pr.variables(), pr.constraints(), pr.inequalities(), pr.equalities()
    keep += cs + [pr]
    _JUNK.append(keep)
    if len(_JUNK) > 24:
        del _JUNK[rng.randrange(len(_JUNK))]


def materialise(inst):
    if 'model' in inst:
        return {'format': inst['format']}
    m = gen.materialise(inst, F=False if inst['kind'] in ('cpl', 'cp') else None)
    if inst['kind'] == 'gp':
        m['F'] = gen.M(inst['F'])
        m['g'] = gen.V(inst['g'])
        m['K'] = list(inst['K'])        # caller-owned, part of the argument image
    return m


def prepare(inst, m):
    """per-call argument set: cpl/cp get their own F object (it counts calls) whose stored start point
    x0m is part of the arguments that must not change"""
    if inst['kind'] in ('cpl', 'cp'):
        m = dict(m)
        F = gen.ConvexF(inst)
        F.keep_trace = False
        m['F'] = F
        m['F.x0'] = F.x0m
        if inst.get('F_aborts_at'):
            def abort_hook(k, _at=inst['F_aborts_at']):
                if k == _at:
                    raise UserAbort('the user function gave up at call %d' % k)
            F.hook = abort_hook
        nested = inst.get('nested')
        if nested:
            # re-entrancy: the user's F itself solves another (independent) problem at given call ordinals
            inner, at, iopts = nested['inst'], set(nested['at']), nested['opts']

            def hook(k, _inner=inner, _at=at, _o=iopts):
                if k in _at:
                    try:
                        do_call(_inner, materialise(_inner), dict(_o))
                    except (ValueError, ArithmeticError, TypeError, UserAbort):
                        pass        # the inner problem's own business (rank-deficient data, an F that gives up, ...): the outer F goes on
            F.hook = hook
    return m


def do_call(inst, m, options):
    k = inst['kind']
    if k in ('cpl', 'cp') and not isinstance(m.get('F'), gen.ConvexF):
        m = prepare(inst, m)
    if k == 'gp':
        return gen.solve_gp(inst, m, options)
    if k == 'op' and 'model' in inst:
        return solve_model(inst, options, solver=inst.get('solver') or 'default')
    if k == 'op':
        return gen.solve_op(inst, m, options, solver=inst.get('solver') or 'default')
    extra = {'solver': inst['solver']} if inst.get('solver') else None
    kk = inst.get('kkt')
    return gen.call_solver(inst, m, kktsolver=None if kk in (None, 'default') else kk, options=options, extra=extra)


# ----------------------------------------------------------------------------- option model

VALID = {'maxiters': [1, 2, 3, 5, 8, 30, 100], 'abstol': [1e-7, 1e-3, 1e-10, 1e-2, -1.0, 1], 'reltol': [1e-6, 1e-2, 1e-9, -1.0],
         'feastol': [1e-7, 1e-3, 1e-9, 1], 'refinement': [0, 1, 2], 'show_progress': [True, False],
         'kktreg': [0.0, 1e-9, 1e-6, 0], 'use_correction': [False, True], 'debug': [True, False]}
INVALID = [('maxiters', 0), ('maxiters', -3), ('maxiters', 2.5), ('maxiters', 'ten'), ('feastol', -1.0), ('feastol', 0.0),
           ('feastol', 'x'), ('abstol', 'x'), ('reltol', 'tiny'), ('refinement', -1), ('refinement', 1.5), ('refinement', 0.0), ('kktreg', -1.0),
           ('kktreg', 'a')]


def gen_opts(rng, quiet_bias=0.7):
    o = {}
    for k in VALID:
        if rng.random() < (0.4 if k not in ('kktreg', 'use_correction', 'debug') else 0.12):
            o[k] = rng.choice(VALID[k])
    if 'show_progress' not in o and rng.random() < quiet_bias:
        o['show_progress'] = False
    return o


def gen_nested(rng, solver):
    """nested option dictionary of an external solver (solvers.options['glpk'] / ['dsdp'])"""
    if solver == 'glpk':
        d = {'msg_lev': 'GLP_MSG_OFF'}
        if rng.random() < 0.6:
            d['it_lim'] = rng.choice([1, 3, 1000])
        if rng.random() < 0.3:
            d['presolve'] = rng.choice(['GLP_ON', 'GLP_OFF'])
        return d
    d = {'DSDP_Monitor': 0}
    if rng.random() < 0.6:
        d['DSDP_MaxIts'] = rng.choice([2, 10, 200])
    if rng.random() < 0.3:
        d['DSDP_GapTolerance'] = rng.choice([1e-3, 1e-7])
    return d


def add_nested(rng, opts, inst):
    """per-call options for an instance solved by an external back-end carry that back-end's dictionary"""
    if opts is not None and inst.get('solver') in ('glpk', 'dsdp') and rng.random() < 0.75:
        opts[inst['solver']] = gen_nested(rng, inst['solver'])
    return opts


def gen_bad_opts(rng):
    o = gen_opts(rng)
    if rng.random() < 0.15:
        o['abstol'], o['reltol'] = -1.0, 0.0
    else:
        k, v = rng.choice(INVALID)
        o[k] = v
    return o


def invalid_reason(opts, inst):
    """why the native path must reject these effective options with ValueError (None = valid)"""
    def num(x):
        return isinstance(x, (int, float)) and not isinstance(x, str)
    def integer(x):
        return isinstance(x, int)
    k = inst['kind']
    if 'kktreg' in opts and opts['kktreg'] is not None:
        v = opts['kktreg']
        if not num(v) or v < 0.0:
            # kktreg is read by conelp, coneqp, cpl (and their wrappers)
            return 'kktreg'
    if 'maxiters' in opts:
        v = opts['maxiters']
        if not integer(v) or v < 1:
            return 'maxiters'
    a, r = opts.get('abstol', 1e-7), opts.get('reltol', 1e-6)
    if not num(a):
        return 'abstol'
    if not num(r):
        return 'reltol'
    if r <= 0.0 and a <= 0.0:
        return 'abstol/reltol'
    if 'feastol' in opts:
        v = opts['feastol']
        if not num(v) or v <= 0.0:
            return 'feastol'
    if 'refinement' in opts and opts['refinement'] is not None:
        v = opts['refinement']
        if not integer(v) or v < 0:
            return 'refinement'
    return None


# ----------------------------------------------------------------------------- case generation

def gen_case(rng, tier='quick'):
    mode = rng.choice(['concurrent', 'concurrent', 'history'])
    ninst = rng.randint(2, 5)
    insts = [gen_instance(rng) for _ in range(ninst)]
    case = {'mode': mode, 'instances': insts, 'share': bool(rng.random() < 0.5)}
    if mode == 'history':
        ops = []
        for _ in range(rng.randint(4, 12)):
            r = rng.random()
            ext = sorted(set(i['solver'] for i in insts if i.get('solver')))
            if r < 0.22 and ext and rng.random() < 0.5:
                sv = rng.choice(ext)
                ops.append(['set', sv, gen_nested(rng, sv)])
            elif r < 0.22:
                k = rng.choice(list(VALID))
                ops.append(['set', k, rng.choice(VALID[k])])
            elif r < 0.28:
                k, v = rng.choice(INVALID)
                ops.append(['set', k, v])
            elif r < 0.36:
                ops.append(['del', rng.choice(list(VALID) + ['kktreg', 'glpk', 'dsdp'])])
            elif r < 0.40:
                ops.append(['clear'])
            elif r < 0.47:
                ops.append(['noise', rng.getrandbits(24)])
            elif r < 0.75:
                i_ = rng.randrange(ninst)
                ops.append(['solve', i_, add_nested(rng, gen_opts(rng), insts[i_]) if rng.random() < 0.6 else None])
            elif r < 0.85:
                ops.append(['solve', rng.randrange(ninst), gen_bad_opts(rng)])
            else:
                ops.append(['solve', rng.randrange(ninst), None])
        if not any(o[0] == 'solve' for o in ops):
            ops.append(['solve', 0, None])
        # keep the history quiet unless show_progress is being exercised
        ops.insert(0, ['set', 'show_progress', False])
        case['clients'] = [ops]
        case['churn'] = None
        case['policy'] = {'kind': 'seq'}
    else:
        ncl = rng.randint(2, 4)
        clients = []
        for c in range(ncl):
            ops = []
            for _ in range(rng.randint(1, 3)):
                if rng.random() < 0.12:
                    ops.append(['noise', rng.getrandbits(24)])
                if rng.random() < 0.12:
                    ops.append(['solve', rng.randrange(ninst), gen_bad_opts(rng)])
                else:
                    i_ = rng.randrange(ninst)
                    ops.append(['solve', i_, add_nested(rng, gen_opts(rng, 0.8), insts[i_])])
            clients.append(ops)
        case['churn'] = None
        if rng.random() < 0.3:
            # one options dictionary OBJECT handed to several concurrent calls: a solver that writes into its
            # options, even temporarily, is seen by its siblings (a before/after comparison alone would miss it)
            common = add_nested(rng, gen_opts(rng, 0.8), insts[0]) if False else gen_opts(rng, 0.8)
            common.pop('glpk', None)
            common.pop('dsdp', None)
            hit = 0
            for ops in clients:
                for o_ in ops:
                    if o_[0] == 'solve' and o_[2] is not None and invalid_reason(o_[2], insts[o_[1]]) is None and rng.random() < 0.6:
                        o_[2] = dict(common)
                        o_.append('shared')
                        hit += 1
            case['shared_options'] = hit >= 2
        if rng.random() < 0.5:
            ops = []
            for _ in range(rng.randint(2, 10)):
                r = rng.random()
                ext = sorted(set(i['solver'] for i in insts if i.get('solver')))
                if r < 0.45 and ext and rng.random() < 0.4:
                    sv = rng.choice(ext)
                    ops.append(['set', sv, gen_nested(rng, sv)])
                elif r < 0.45:
                    k = rng.choice(list(VALID))
                    ops.append(['set', k, rng.choice(VALID[k])])
                elif r < 0.7:
                    k, v = rng.choice(INVALID)
                    ops.append(['set', k, v])
                elif r < 0.85:
                    ops.append(['del', rng.choice(list(VALID) + ['kktreg'])])
                elif r < 0.93:
                    ops.append(['noise', rng.getrandbits(24)])
                else:
                    ops.append(['clear'])
            case['churn'] = len(clients)
            clients.append(ops)
        case['clients'] = clients
        pk = rng.choice(['random', 'random', 'random', 'pct', 'pct', 'rr', 'seq'])
        if pk == 'random':
            case['policy'] = {'kind': 'random', 'p': rng.choice([0.002, 0.02, 0.2, 0.5])}
        elif pk == 'pct':
            case['policy'] = {'kind': 'pct', 'd': rng.choice([1, 2, 3]), 'horizon': rng.choice([2000, 8000, 30000])}
        elif pk == 'rr':
            case['policy'] = {'kind': 'rr', 'q': rng.choice([1, 7, 50, 400, 3000])}
        else:
            case['policy'] = {'kind': 'seq'}
    case['policy_seed'] = rng.getrandbits(32)
    return case


def make_policy(case, nclients):
    if case.get('schedule') is not None:
        return S.ReplayPolicy(case['schedule'])
    p = case['policy']
    rng = random.Random(case['policy_seed'])
    if p['kind'] == 'random':
        return S.RandomPolicy(rng, p['p'])
    if p['kind'] == 'pct':
        return S.PCTPolicy(rng, nclients, p['d'], p['horizon'])
    if p['kind'] == 'rr':
        return S.RRPolicy(rng, p['q'])
    return S.SeqPolicy()


# ----------------------------------------------------------------------------- reference runs

def _reference_child(inst, kw_opts, global_opts):
    from cvxopt import solvers
    solvers.options.clear()
    solvers.options.update(global_opts)
    # the reference is the call on its own: a solve that the user's F starts in the middle of this one (the nested
    # instance) is an independent call and must not change anything about the outer result
    inst = {k_: v_ for k_, v_ in inst.items() if k_ != 'nested'}
    m = materialise(inst)
    buf = io.StringIO()
    try:
        with contextlib.redirect_stdout(buf):
            res = do_call(inst, m, kw_opts)
    except Exception as e:   # noqa
        return ('exc', type(e).__name__, str(e), buf.getvalue())
    return ('ok', O.bits(res), buf.getvalue(), None)


class RefCache:
    """Reference results.  fork=True: each reference is computed in a pristine forked child
    (nothing preceded the call).  fork=False (default inside a unit, because fork is very expensive
    in this sandbox): computed in this process, sequentially, before the simulated run; a seeded
    sample of them is re-computed in a pristine fork and compared — a difference means the result
    of a call depends on the calls that preceded it, which is itself a C09 violation."""

    def __init__(self, fork=False, audit_rng=None, audit_rate=0.0):
        self.cache = {}
        self.calls = 0
        self.fork = fork
        self.audit_rng = audit_rng
        self.audit_rate = audit_rate
        self.audits = 0
        self.audit_failure = None
        self.cstate_failure = None
        self.history = []

    def get(self, idx, inst, kw_opts, global_opts):
        key = (core.sha(inst), json.dumps(kw_opts, sort_keys=True), json.dumps(global_opts, sort_keys=True) if kw_opts is None else '-')
        if key not in self.cache:
            self.calls += 1
            g = global_opts if kw_opts is None else {}
            if self.fork:
                val = self._pristine(inst, kw_opts, g)
            else:
                cst0 = _CSTATE[0].snapshot() if _CSTATE[0] is not None else None
                val = _reference_child(inst, kw_opts, g)
                if cst0 is not None and self.cstate_failure is None:
                    cd = O.CState.diff(cst0, _CSTATE[0].snapshot())
                    if cd:
                        self.cstate_failure = (inst, kw_opts, g, cd)
                self.history.append([inst, kw_opts, g])
                from cvxopt import solvers
                solvers.options.clear()
                if self.audit_rng is not None and self.audit_rng.random() < self.audit_rate:
                    self.audits += 1
                    pv = self._pristine(inst, kw_opts, g)
                    if tuple(pv) != tuple(val) and self.audit_failure is None:
                        self.audit_failure = (inst, kw_opts, g, val, pv, list(self.history))
            self.cache[key] = val
        return self.cache[key]

    @staticmethod
    def _pristine(inst, kw_opts, g):
        kind, val = core.in_fork(_reference_child, (inst, kw_opts, g), timeout=120.0)
        if kind != 'ok':
            raise core.HarnessError('reference run failed: %s %s' % (kind, str(val)[-300:]))
        return val


# ----------------------------------------------------------------------------- one simulated run

def run_case(case, refs=None):
    """Execute one case.  Returns dict(violation, digest, stats, schedule)."""
    from cvxopt import solvers
    warmup()
    insts = case['instances']
    clients = case['clients']
    churn = case.get('churn')
    mode = case['mode']
    stats = {}
    log = core.Log()

    def bump(k, n=1):
        stats[k] = stats.get(k, 0) + n

    # ---- the option model and the references, before any thread exists
    if refs is None:
        refs = RefCache(fork=True)
    calls0 = refs.calls
    plan = []     # per client: list of per-op dict(expect..)
    model = {}
    for ci, ops in enumerate(clients):
        row = []
        for op in ops:
            if op[0] == 'solve':
                idx, kw = op[1], op[2]
                if mode == 'history':
                    eff = dict(kw) if kw is not None else dict(model)
                    gl = dict(model)
                else:
                    eff = dict(kw) if kw is not None else {}
                    gl = {}
                ref = refs.get(idx, insts[idx], kw, gl if kw is None else {})
                row.append({'eff': eff, 'ref': ref})
            else:
                if mode == 'history':
                    apply_global(model, op)
                row.append(None)
        plan.append(row)
    bump('reference_runs', refs.calls - calls0)

    # ---- shared / private materialisation
    shared = [materialise(i) for i in insts] if case.get('share') else None
    obs = [[None] * len(ops) for ops in clients]
    pkgdir = os.path.dirname(sys.modules['cvxopt'].__file__)
    nthreads = len(clients)
    policy = make_policy(case, nthreads)
    # the global cap is a guard against a hang, not a budget: it grows with the number of solver calls in the
    # run, re-entrant ones included (a run of nine cpl calls with the relative criterion switched off, each
    # starting three inner solves, legitimately needs more than the old fixed 600 000 yield points)
    ncalls_ = sum(1 + (len(insts[o_[1]]['nested']['at']) if insts[o_[1]].get('nested') else 0)
                  for ops_ in clients for o_ in ops_ if o_[0] == 'solve')
    sch = S.Sched(pkgdir, policy, cap=max(600000, 250000 * ncalls_))
    solvers.options.clear()
    gmodel = {}
    gops = []     # global-option operations in executed order
    noise = [0]

    shared_kw = {}

    def body_for(ci):
        ops = clients[ci]

        def body(idx):
            cl = sch.clients[idx]
            for oi, op in enumerate(ops):
                if op[0] == 'solve':
                    inst = insts[op[1]]
                    m = prepare(inst, shared[op[1]] if shared is not None else materialise(inst))
                    kw = dict(op[2]) if op[2] is not None else None
                    if len(op) > 3 and op[3] == 'shared' and case.get('shared_options'):
                        kw = shared_kw.setdefault('obj', kw)         # the same dictionary object for all marked calls
                    img0 = O.image([m, kw])
                    snap0 = O.globals_snapshot()
                    cst0 = _CSTATE[0].snapshot()
                    gl0 = O.bits(dict(solvers.options))
                    del cl.out[:]
                    start = cl.local
                    sch.in_solve.add(idx)
                    try:
                        res = do_call(inst, m, kw)
                        o = {'kind': 'ok', 'bits': O.bits(res), 'res': summarise_result(res)}
                    except S.StepCap:
                        sch.in_solve.discard(idx)
                        obs[ci][oi] = {'kind': 'cap', 'steps': cl.local - start}
                        raise
                    except Exception as e:   # noqa
                        o = {'kind': 'exc', 'type': type(e).__name__, 'msg': str(e)}
                    sch.in_solve.discard(idx)
                    o['steps'] = cl.local - start
                    o['stdout'] = ''.join(cl.out)
                    o['img_same'] = (O.image([m, kw]) == img0) and (kw == op[2])
                    o['snapdiff'] = O.snapshot_diff(snap0, O.globals_snapshot())
                    o['cdiff'] = O.CState.diff(cst0, _CSTATE[0].snapshot())
                    o['globals_same'] = O.bits(dict(solvers.options)) == gl0
                    obs[ci][oi] = o
                elif op[0] == 'noise':
                    model_noise(op[1])
                    if not refs.fork:
                        refs.history.append(['noise', op[1]])
                    noise[0] += 1
                    obs[ci][oi] = {'kind': 'noise'}
                else:
                    apply_global(solvers.options, op)
                    apply_global(gmodel, op)
                    gops.append(op)
                    obs[ci][oi] = {'kind': 'global'}
                    if idx == churn:
                        sch.voluntary_yield(idx)
        return body

    real_stdout = sys.stdout
    sys.stdout = S.StdoutRouter(sch, real_stdout)
    try:
        sch.run([body_for(ci) for ci in range(nthreads)], first=0)
    finally:
        sys.stdout = real_stdout
    final_global = dict(solvers.options)
    solvers.options.clear()

    # ---- judge
    violation = None

    def V(oracle, entry, detail, **sig):
        s = {'oracle': oracle, 'entry': entry, 'mode': mode}
        s.update(sig)
        return {'oracle': oracle, 'klass': '%s:%s' % (oracle, entry), 'sig': s, 'detail': detail}

    nsolves = 0
    overlapped = sch.overlap_switches
    for ci, ops in enumerate(clients):
        if violation:
            break
        err = sch.clients[ci].error
        for oi, op in enumerate(ops):
            o = obs[ci][oi]
            if op[0] != 'solve':
                continue
            inst = insts[op[1]]
            entry = inst['kind'] + ('/' + inst['solver'] if inst.get('solver') else '')
            where = 'client %d op %d (%s, options=%s)' % (ci, oi, entry, 'kw' if op[2] is not None else 'global')
            if o is None:
                if sch.capped:
                    continue
                violation = V('client-died', entry, '%s never ran: client error %r' % (where, err))
                break
            nsolves += 1
            log.add('op', ci, oi, o.get('kind'), o.get('bits'), o.get('type'), o.get('steps'))
            if o.get('kind') == 'ok':
                bump('probe.status.%s' % str(o['res'].get('status')).replace(' ', '_'))
                if o['res'].get('iterations') is not None and o['res']['iterations'] == (plan[ci][oi]['eff'].get('maxiters', 100)
                                                                                       if isinstance(plan[ci][oi]['eff'].get('maxiters', 100), int) else -1):
                    bump('probe.stopped_by_maxiters')
            elif o.get('kind') == 'exc':
                bump('probe.raised.%s' % o.get('type'))
            if 'model' in inst:
                bump('probe.solve_of_multi_constraint_model')
                if len(set(inst['cons'])) < len(inst['cons']):
                    bump('probe.model_with_a_constraint_object_present_twice')
            if any(x[0] == 'noise' for x in ops[:oi]):
                bump('probe.solve_preceded_by_modelling_noise_in_its_own_client')
            if o['kind'] == 'cap':
                violation = V('termination', entry, '%s did not return within the global step cap (%d yield points in this call)' % (where, o['steps']))
                break
            if o['kind'] == 'exc' and o['type'] == 'RepeatSolveDiffers':
                violation = V('repeat-solve-differs', entry, '%s: %s' % (where, o['msg']))
                break
            exp = plan[ci][oi]
            eff, ref = exp['eff'], exp['ref']
            native = inst.get('solver') is None
            # 1. bitwise against the pristine reference
            if ref[0] == 'exc':
                if o['kind'] != 'exc' or o['type'] != ref[1] or o['msg'] != ref[2]:
                    violation = V('bitwise-vs-pristine', entry, '%s: pristine run raises %s(%s) but this call gave %s' %
                                  (where, ref[1], ref[2], (o.get('type'), o.get('msg')) if o['kind'] == 'exc' else 'a result'), what='exception')
                    break
            else:
                if o['kind'] == 'exc':
                    violation = V('bitwise-vs-pristine', entry, '%s: raised %s(%s); the pristine run returns normally' % (where, o['type'], o['msg']), what='exception')
                    break
                if o['bits'] != ref[1]:
                    violation = V('bitwise-vs-pristine', entry, '%s: result differs from the same call in a pristine interpreter (status here %r)' %
                                  (where, o['res'].get('status')), what='result')
                    break
                if native and o['stdout'] != ref[2]:
                    violation = V('bitwise-vs-pristine', entry, '%s: printed output differs from the pristine run (%d vs %d chars)' %
                                  (where, len(o['stdout']), len(ref[2])), what='stdout')
                    break
            # 2./3. arguments, option dictionaries and module state untouched
            if not o['img_same']:
                violation = V('arguments-modified', entry, '%s: an input matrix, dims, start point or the options dictionary changed during the call' % where)
                break
            if o['snapdiff']:
                violation = V('global-state-changed', entry, '%s: module state changed across the call: %s' % (where, o['snapdiff'][:3]),
                              attr=o['snapdiff'][0][0])
                break
            if o['cdiff']:
                violation = V('c-static-state-changed', entry, '%s: static data of the extension modules changed across the call: %s' % (where, o['cdiff'][:4]),
                              symbol=o['cdiff'][0])
                break
            if mode == 'history' and not o['globals_same']:
                violation = V('global-options-modified', entry, '%s: the call modified solvers.options' % where)
                break
            # 4. semantic effect of the effective options (native paths)
            if native:
                bad = invalid_reason(eff, inst)
                if bad is not None:
                    if not (o['kind'] == 'exc' and o['type'] == 'ValueError'):
                        violation = V('option-validation', entry, '%s: invalid option %s=%r was not rejected with ValueError (got %s)' %
                                      (where, bad, eff.get(bad.split('/')[0]), o.get('type') or 'a result'), option=bad)
                        break
                    bump('invalid_option_calls_rejected')
                elif o['kind'] == 'ok':
                    r = o['res']
                    mi = eff.get('maxiters', 100)
                    if r.get('iterations') is not None and r['iterations'] > mi:
                        violation = V('maxiters', entry, '%s: %d iterations with maxiters=%d' % (where, r['iterations'], mi))
                        break
                    if eff.get('show_progress', True) is False and not eff.get('debug') and o['stdout']:      # 'debug' has its own output
                        violation = V('show_progress', entry, '%s: printed %d chars although show_progress is False' % (where, len(o['stdout'])))
                        break
                    ft_ = eff.get('feastol', 1e-7)
                    if r.get('status') == 'dual infeasible' and r.get('dinfres') is not None and not (r['dinfres'] <= ft_):
                        violation = V('tolerances', entry, "%s: 'dual infeasible' with certificate residual %r > feastol %r" % (where, r['dinfres'], ft_), what='dual-certificate')
                        break
                    if r.get('status') == 'primal infeasible' and r.get('pinfres') is not None and not (r['pinfres'] <= ft_):
                        violation = V('tolerances', entry, "%s: 'primal infeasible' with certificate residual %r > feastol %r" % (where, r['pinfres'], ft_), what='primal-certificate')
                        break
                    if r.get('status') == 'optimal' and inst['kind'] != 'op' and r.get('iterations') != 0:
                        ft, at, rt = eff.get('feastol', 1e-7), eff.get('abstol', 1e-7), eff.get('reltol', 1e-6)
                        pi, di, gp_, rg = r.get('pres'), r.get('dres'), r.get('gap'), r.get('relgap')
                        if pi is not None and (pi > ft or di > ft or not (gp_ <= at or (rg is not None and rg <= rt))):
                            violation = V('tolerances', entry, "%s: 'optimal' but reported pres=%r dres=%r gap=%r relgap=%r vs feastol=%r abstol=%r reltol=%r" %
                                          (where, pi, di, gp_, rg, ft, at, rt))
                            break
                    # 5. bounded termination of this call
                    iters_bound = (mi + 2)
                    if o['steps'] > STEP_PER_ITER_BOUND * iters_bound:
                        violation = V('termination', entry, '%s: %d yield points for maxiters=%d' % (where, o['steps'], mi))
                        break
                    it = r.get('iterations')
                    if it is not None:
                        spi = o['steps'] // (it + 2)
                        if spi > stats.get('max.steps_per_iteration', 0):
                            stats['max.steps_per_iteration'] = spi
    if violation is None and mode == 'concurrent' and final_global != gmodel:
        violation = V('global-options-modified', 'any', 'after the run solvers.options = %r, the model (churn operations only) says %r' % (final_global, gmodel))
    if violation is None and sch.capped:
        violation = V('termination', 'any', 'run hit the global step cap of %d yield points' % sch.cap)
    if violation is None:
        for ci in range(nthreads):
            e = sch.clients[ci].error
            if e is not None:
                raise core.HarnessError('client %d died: %r' % (ci, e))
    # ---- reach
    switch_sig = [(a, t) for a, k, t in sch.schedule]
    log.add('schedule', len(sch.schedule), core.sha(sch.schedule))
    nontrivial = False
    if mode == 'concurrent':
        nontrivial = overlapped >= 1
        bump('runs.concurrent')
        bump('switches', len(sch.schedule))
        bump('switches_while_two_solves_in_progress', overlapped)
        if churn is not None:
            bump('fault.option_churn_ops', len(clients[churn]))
            bump('fault.garbled_global_values', sum(1 for o in clients[churn] if o[0] == 'set' and (o[1], o[2]) in INVALID))
        if case.get('share'):
            bump('fault.shared_input_matrices_runs')
        if case.get('shared_options'):
            bump('fault.shared_options_object_runs')
    else:
        nchanges = sum(1 for o in clients[0] if o[0] != 'solve')
        nontrivial = nsolves >= 3 and nchanges >= 2
        bump('runs.history')
        bump('fault.global_option_changes', nchanges)
    bump('fault.failing_calls', sum(1 for ci, ops in enumerate(clients) for oi, op in enumerate(ops)
                                    if op[0] == 'solve' and obs[ci][oi] and obs[ci][oi].get('kind') == 'exc'))
    bump('fault.unrelated_modelling_activity_ops', noise[0])
    bump('steps', sch.step)
    bump('solves', nsolves)
    bump('policy.' + case['policy']['kind'] if case.get('schedule') is None else 'policy.replay')
    for ci, ops in enumerate(clients):
        for oi, op in enumerate(ops):
            if op[0] == 'solve':
                inst = insts[op[1]]
                bump('entry.' + inst['kind'] + ('_' + inst['solver'] if inst.get('solver') else ''))
                if inst.get('nested'):
                    bump('fault.reentrant_solves_from_F_callback')
    digest = core.sha((json.dumps(case['clients'], sort_keys=True), [core.sha(i) for i in insts], switch_sig, sorted(sch.sites.items())))
    return {'violation': violation, 'digest': log.digest(), 'stats': stats, 'schedule': sch.schedule,
            'nontrivial': nontrivial, 'distinct': digest, 'sites': len(sch.sites), 'nsolves': nsolves}


def apply_global(d, op):
    if op[0] == 'set':
        d[op[1]] = op[2]
    elif op[0] == 'del':
        d.pop(op[1], None)
    elif op[0] == 'clear':
        d.clear()


def summarise_result(res):
    if not isinstance(res, dict):
        return {}
    return {'status': res.get('status'), 'iterations': res.get('iterations'), 'pres': res.get('primal infeasibility'),
            'dres': res.get('dual infeasibility'), 'gap': res.get('gap'), 'relgap': res.get('relative gap'),
            'pinfres': res.get('residual as primal infeasibility certificate'),
            'dinfres': res.get('residual as dual infeasibility certificate')}


# ----------------------------------------------------------------------------- engine interface

def history_violation(inst, val, pv):
    return {'oracle': 'history-dependence', 'klass': 'history-dependence:%s' % inst['kind'],
            'sig': {'oracle': 'history-dependence', 'entry': inst['kind']},
            'detail': 'a %s call made after other solver calls in the same interpreter returned %r, in a pristine interpreter %r' %
                      (inst['kind'], tuple(val)[:2], tuple(pv)[:2])}


def run_refhistory(case):
    warmup()
    from cvxopt import solvers
    val = None
    log = core.Log()
    for call in case['calls']:
        if call[0] == 'noise':
            model_noise(call[1])
            continue
        inst, kw, g = call
        val = _reference_child(inst, kw, g)
        solvers.options.clear()
        log.add('ref', val[0], val[1])
    inst, kw, g = case['calls'][-1]
    pv = RefCache._pristine(inst, kw, g)
    v = history_violation(inst, val, pv) if tuple(pv) != tuple(val) else None
    return {'violation': v, 'digest': log.digest(), 'stats': {}}


def execute(case, journal):
    if case.get('mode') == 'refhistory':
        return run_refhistory(case)
    if case.get('mode') == 'cstate':
        return run_cstate(case)
    r = run_case(case)
    return {'violation': r['violation'], 'digest': r['digest'], 'stats': r['stats']}


def run_unit(seed, tier, r, journal):
    warmup()
    rng = random.Random(seed)
    res = {'evaluations': 0, 'nontrivial_digests': [], 'stats': {}, 'violations': [], 'samples': [], 'digest': None}
    ulog = core.Log()
    refs = RefCache(fork=False, audit_rng=random.Random(seed ^ 0x5bd1e995), audit_rate=0.06)
    for k in range(RUNS_PER_UNIT):
        case = gen_case(rng, tier)
        journal.begin_case(case)
        out = run_case(case, refs)
        journal.end_case()
        res['evaluations'] += 1
        ulog.add('run', k, out['digest'])
        if out['nontrivial']:
            res['nontrivial_digests'].append(out['distinct'])
        for kk, n in out['stats'].items():
            if kk.startswith('max.'):
                res['stats'][kk] = max(res['stats'].get(kk, 0), n)
            else:
                res['stats'][kk] = res['stats'].get(kk, 0) + n
        if out['violation'] is not None:
            c2 = dict(case)
            c2['schedule'] = out['schedule']
            res['violations'].append({'case': c2, 'violation': out['violation']})
            break       # later runs of this unit would execute in a process whose state is suspect
        if k == 0 and r % 8 == 0:
            res['samples'].append({'mode': case['mode'], 'policy': case['policy'], 'share_inputs': case.get('share'),
                                   'instances': [{'entry': i['kind'], 'solver': i.get('solver'), 'kkt': i.get('kkt'), 'n': i['n'], 'dims': i['dims']} for i in case['instances']],
                                   'clients': case['clients'], 'churn_client': case.get('churn'),
                                   'context_switches': len(out['schedule']), 'first_switches[client,local_step,target]': out['schedule'][:12],
                                   'yield_points': out['stats'].get('steps')})
    res['stats']['pristine_reference_audits'] = refs.audits
    if refs.audit_failure is not None and not res['violations']:
        inst, kw, g, val, pv, hist = refs.audit_failure
        case = {'mode': 'refhistory', 'calls': hist}
        v = history_violation(inst, val, pv)
        res['violations'].append({'case': case, 'violation': v})
    if refs.cstate_failure is not None and not res['violations']:
        inst, kw, g, cd = refs.cstate_failure
        res['violations'].append({'case': {'mode': 'cstate', 'calls': [[inst, kw, g]]}, 'violation': cstate_violation(inst, cd)})
    res['digest'] = ulog.digest()
    return res


def cstate_violation(inst, cd):
    return {'oracle': 'c-static-state-changed', 'klass': 'c-static-state-changed:%s' % inst['kind'],
            'sig': {'oracle': 'c-static-state-changed', 'entry': inst['kind'], 'symbol': cd[0]},
            'detail': 'a %s call changed static data of the extension modules: %s' % (inst['kind'], cd[:4])}


def run_cstate(case):
    warmup()
    from cvxopt import solvers
    log = core.Log()
    cd = []
    for inst, kw, g in case['calls']:
        a = _CSTATE[0].snapshot()
        val = _reference_child(inst, kw, g)
        solvers.options.clear()
        cd = O.CState.diff(a, _CSTATE[0].snapshot())
        log.add('call', val[0], cd)
    inst = case['calls'][-1][0]
    return {'violation': cstate_violation(inst, cd) if cd else None, 'digest': log.digest(), 'stats': {}}


def shrink(case, still_fails):
    """ops per client (under the seeded policy, then under the frozen schedule), then the switch list"""
    if case.get('mode') == 'cstate':
        return case
    if case.get('mode') == 'refhistory':
        head = core.ddmin(case['calls'][:-1], lambda sub: still_fails({'mode': 'refhistory', 'calls': sub + case['calls'][-1:]}), budget=60)
        return {'mode': 'refhistory', 'calls': head + case['calls'][-1:]}
    best = case

    def with_clients(c, clients):
        c2 = dict(c)
        c2['clients'] = clients
        return c2

    # 1. drop whole operations (explicit schedule no longer aligned -> use the seeded policy)
    seeded = dict(best)
    seeded.pop('schedule', None)
    if still_fails(seeded):
        cur = seeded
        flat = [(ci, oi) for ci, ops in enumerate(cur['clients']) for oi in range(len(ops))]

        def build(sub):
            keep = set(sub)
            clients = [[op for oi, op in enumerate(ops) if (ci, oi) in keep] for ci, ops in enumerate(cur['clients'])]
            return with_clients(cur, clients)
        small = core.ddmin(flat, lambda sub: still_fails(build(sub)), budget=60)
        cand = build(small)
        if still_fails(cand):
            cur = cand
        # simpler policy
        for pol in ({'kind': 'seq'},):
            c2 = dict(cur, policy=pol)
            if still_fails(c2):
                cur = c2
        # freeze the schedule
        kind, r = core.in_fork(lambda: {k: v for k, v in run_case(cur).items() if k in ('violation', 'schedule')}, (), timeout=120.0)
        if kind == 'ok' and r['violation'] is not None:
            frozen = dict(cur, schedule=r['schedule'])
            if still_fails(frozen):
                best = frozen
            else:
                best = cur
        else:
            best = cur
    # 2. fewest context switches
    if best.get('schedule'):
        sw = core.ddmin(best['schedule'], lambda sub: still_fails(dict(best, schedule=sub)), budget=80)
        cand = dict(best, schedule=sw)
        if still_fails(cand):
            best = cand
    return best


def coverage_extra(stats):
    return {'distinct_interleavings_measure': 'distinct_nontrivial counts distinct digests of (program, instances, switch list [(from,to)], switch sites)',
            'max_steps_per_iteration_observed_note': 'summed over units in counters; per-call bound is %d yield points per (maxiters+2)' % STEP_PER_ITER_BOUND}
