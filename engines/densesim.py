"""densesim — C15: dense matrices behave like the column-major arrays the manual describes
(DESIGN 5.C15).  Fault-free corner; claimed: histories of in-place / regular operations over a pool
of aliased references and memoryviews, against the reference model simkit/matmodel.py.
"""
import ctypes
import os
import random

from simkit import core
from simkit import matmodel as MDL
from engines import sparsesim as SPS     # shares the allocator-seam helpers and literal builders

NAME = 'densesim'
PROPERTY = 'C15'
LEVEL = 'exploration'
RULE = ('evaluation = one history of 5-25 operations over a pool of 2-5 dense matrices (typecodes i/d/z, shapes up to 4x4 incl. 0xn and '
        'mx0, small-integer values) reachable through several aliased names and memoryviews: in-place += -= *= /= with number / 1x1 / '
        'matrix operands (also through an alias, also with the matrix itself as operand), indexed assignment with every index kind from '
        'numbers, lists and matrices, size reassignment, writes through a memoryview, and regular operations (+ - * / neg abs T H real imag '
        'indexing copy reshape convert, elementwise mul) whose results get new names. After every operation every live name is compared '
        'with the model. non-trivial = history with >= 2 in-place mutations of an object that has >= 2 names or a live memoryview; '
        'distinct = distinct digest of the operation list.')
SIM_TIME_NOTE = 'no clock; sim_steps = operations applied'
STUBS = ['reference model simkit/matmodel.py (column-major list + size + typecode, documented promotion/broadcast/refusal rules)',
         'allocator seam libvpalloc (guard bytes / electric fence) — observation only',
         'no scheduler and no injected fault (fault-free corner)']
ASSUMPTIONS = ['only behaviour the manual defines is generated (no overlapping self-assignment, no duplicate entries in assignment index lists, '
               'no integer division, no bool/NaN values)', 'refusal is compared as refusal (an exception of a documented type), the exact type only for index errors',
               'small-integer data and power-of-two divisors: all arithmetic exact']
TIERS = {'quick': {'units': 96, 'wall_cap': 70.0, 'unit_timeout': 300.0},
         'thorough': {'units': 8000, 'wall_cap': 900.0, 'unit_timeout': 600.0}}
HIST_PER_UNIT = 250
CRASHES_ARE_VERDICTS = True


def warmup():
    SPS.warmup()


def mkval(tc, rng):
    v = rng.randint(-3, 3)
    if tc == 'i':
        return v
    if tc == 'd':
        return float(v)
    return [float(v), float(rng.randint(-3, 3))] if rng.random() < 0.6 else float(v)


def gen_dense(rng, m=None, n=None, tc=None):
    tc = tc or rng.choice(['i', 'd', 'd', 'z'])
    m = rng.choice([0, 1, 1, 2, 3, 4]) if m is None else m
    n = rng.choice([0, 1, 1, 2, 3, 4]) if n is None else n
    return {'k': 'dense', 'm': m, 'n': n, 'tc': tc, 'v': [mkval(tc, rng) for _ in range(m * n)]}


def gen_dense1(rng, v, tc):
    """a 1x1 matrix literal with an exactly invertible value"""
    return {'k': 'dense', 'm': 1, 'n': 1, 'tc': tc, 'v': [[float(v), 0.0] if tc == 'z' else (int(v) if tc == 'i' else float(v))]}


def lit(x):
    """literal number from JSON form"""
    return complex(x[0], x[1]) if isinstance(x, list) else x


def model_of(spec):
    return MDL.MM(spec['tc'], spec['m'], spec['n'], [lit(x) for x in spec['v']])


class World:
    def __init__(self):
        self.objs = {}      # oid -> {'X': matrix, 'M': MM, 'mut': n, 'views': [memoryview]}
        self.names = {}     # name -> oid
        self.counter = 0
        self.oid = 0

    def fresh(self):
        self.counter += 1
        return 'n%d' % self.counter

    def bind(self, name, X, M):
        self.oid += 1
        self.objs[self.oid] = {'X': X, 'M': M, 'mut': 0, 'views': [], 'nontrivial_mut': 0}
        self.names[name] = self.oid

    def o(self, name):
        return self.objs[self.names[name]]

    def names_of(self, oid):
        return [k for k, v in self.names.items() if v == oid]

    def sorted_names(self):
        return sorted(self.names, key=lambda s: int(s[1:]))


def gen_num(rng, tc):
    v = mkval(tc, rng)
    return v


def gen_op(rng, w):
    names = w.sorted_names()
    if len(names) < 2 or (len(names) < 7 and rng.random() < 0.07):
        return ['new', w.fresh(), gen_dense(rng)]
    t = rng.choice(names)
    e = w.o(t)
    M = e['M']
    m, n, tc = M.m, M.n, M.tc
    r = rng.random()
    if r < 0.08:
        return ['alias', w.fresh(), t]
    if r < 0.30:
        opn = rng.choice(['+=', '-=', '*=', '/=', '+=', '-=', '*=', '/=', '%='])
        rr = rng.random()
        if opn == '%=':
            if rr < 0.3:
                return ['iop', t, opn, gen_dense(rng, 1, 1, rng.choice([tc, 'i', 'd']))]
            return ['iop', t, opn, {'k': 'num', 'v': rng.choice([1, -1, 2, 3, -3, 2.0, -2.0, 0.5, 4, 2.5, 0, [0.0, 2.0]])}]
        if opn == '/=':
            if rr < 0.2:
                return ['iop', t, opn, gen_dense1(rng, rng.choice([2, -2, 4, 1]), rng.choice([tc, 'i', 'd', 'z']))]     # A /= c, c a 1x1 matrix
            if rr < 0.27:
                return ['iop', t, opn, {'k': 'num', 'v': rng.choice([0, 0.0, [0.0, 0.0]])}]                            # division by zero: refused, A untouched
            if rr < 0.32:
                big_ = [k for k in names if w.o(k)['M'].size != (1, 1)]
                if big_:
                    return ['iop', t, opn, {'k': 'ref', 'name': rng.choice(big_)}]                                     # a divisor that is no scalar
            return ['iop', t, opn, {'k': 'num', 'v': rng.choice([1, -1, 2, 2.0, -2.0, 0.5, 4.0, [0.0, 2.0]])}]
        if rr < 0.4:
            return ['iop', t, opn, {'k': 'num', 'v': gen_num(rng, rng.choice([tc, tc, 'i', 'd', 'z']))}]
        if rr < 0.55:
            return ['iop', t, opn, gen_dense(rng, 1, 1, rng.choice([tc, tc, 'i', 'd', 'z']))]
        if opn == '*=' and m * n == 0:
            return ['iop', t, opn, {'k': 'num', 'v': gen_num(rng, tc)}]       # in-place product of empty matrices: not defined
        if rr < 0.62 and opn in ('+=', '-=') and m * n > 1:
            return ['iop', t, opn, SPS.gen_sparse(rng, 'z' if (tc == 'z' and rng.random() < 0.5) else 'd', m, n)]
        if rr < 0.85:
            cands = [k for k in names if w.o(k)['M'].size == (m, n)]
            return ['iop', t, opn, {'k': 'ref', 'name': rng.choice(cands)}]
        return ['iop', t, opn, gen_dense(rng, m if rng.random() < 0.9 else m + 1, n, rng.choice([tc, 'i', 'd', 'z']))]
    if r < 0.52:
        return gen_setitem(rng, w, t)
    if r < 0.57:
        tot = m * n
        shapes = [(a, tot // a) for a in range(1, tot + 1) if tot % a == 0] if tot else [(0, rng.randint(0, 3)), (rng.randint(0, 3), 0)]
        sh = rng.choice(shapes) if rng.random() < 0.9 else (m + 1, n)
        if rng.random() < 0.05:
            sh = (sh[0] + 2 ** 32, sh[1])      # must not be taken modulo 2^32
        return ['size', t, list(sh)]
    if r < 0.63 and tc in ('i', 'd') and m * n > 0:
        return ['mvwrite', t, rng.randrange(m), rng.randrange(n), mkval(tc, rng)]
    if r < 0.66:
        return ['mvopen', t]
    if r < 0.93:
        return gen_derive(rng, w, t)
    if r < 0.97:
        return ['query', t, rng.choice(['sum', 'len', 'bool', 'in', 'iter', 'max', 'min', 'bmax', 'bmin', 'sumstart', 'inf']),
                rng.choice([rng.randint(-3, 3), rng.randint(-3, 3), 2.0, 2.5, -1.0])]
    if len(names) > 2:
        return ['del', rng.choice(names)]
    return gen_derive(rng, w, t)


def gen_setitem(rng, w, t):
    M = w.o(t)['M']
    m, n, tc = M.m, M.n, M.tc
    names = w.sorted_names()
    if rng.random() < 0.45:
        idx = SPS.gen_index(rng, m * n)
        cnt = SPS.idx_count(idx, m * n)
        shape = (1, 1) if cnt is None else (cnt, 1)
        scalar = cnt is None
        return ['set1', t, idx, gen_rhs(rng, w, t, tc, shape, scalar)]
    ii, jj = SPS.gen_index(rng, m), SPS.gen_index(rng, n)
    ci, cj = SPS.idx_count(ii, m), SPS.idx_count(jj, n)
    shape = (1 if ci is None else ci, 1 if cj is None else cj)
    return ['set2', t, ii, jj, gen_rhs(rng, w, t, tc, shape, ci is None and cj is None)]


def gen_rhs(rng, w, t, tc, shape, scalar):
    r = rng.random()
    vt = rng.choice([tc, tc, tc, 'i', 'd', 'z'])
    if r < 0.35 or scalar:
        if scalar and rng.random() < 0.25:
            return gen_dense(rng, 1, 1, vt)
        return {'k': 'num', 'v': mkval(vt, rng)}
    m, n = shape
    if r < 0.55:
        k = m * n if rng.random() < 0.93 else m * n + 1
        return {'k': 'list', 'v': [mkval(vt, rng) for _ in range(k)], 'form': rng.choice(['list', 'list', 'tuple'])}
    if r < 0.9:
        if rng.random() < 0.05:
            m += 1
        if rng.random() < 0.2 and (m, n) != (1, 1):
            return SPS.gen_sparse(rng, 'd' if vt == 'i' else vt, m, n)
        if rng.random() < 0.12:
            return gen_dense(rng, 1, 1, vt)         # a 1x1 dense matrix is a scalar for every index kind
        return gen_dense(rng, m, n, vt)
    if rng.random() < 0.5 and m * n > 1:
        # same number of elements, another shape (a k x 1 column for an r x c block, the transpose shape, ...):
        # must be refused and must leave the right-hand side object alone
        cands = [k for k in w.sorted_names() if w.o(k)['M'].m * w.o(k)['M'].n == m * n and w.o(k)['M'].size != shape
                 and w.names[k] != w.names[t]]
        if cands:
            return {'k': 'ref', 'name': rng.choice(cands)}
        alt = [(m * n, 1), (1, m * n), (n, m)]
        alt = [a for a in alt if a != (m, n) and a != (1, 1)]
        if alt:
            a = rng.choice(alt)
            return gen_dense(rng, a[0], a[1], vt)
    cands = [k for k in w.sorted_names() if w.o(k)['M'].size == shape and w.names[k] != w.names[t]]
    if cands:
        return {'k': 'ref', 'name': rng.choice(cands)}
    return gen_dense(rng, m, n, vt)


def gen_derive(rng, w, t):
    M = w.o(t)['M']
    m, n, tc = M.m, M.n, M.tc
    names = w.sorted_names()
    kind = rng.choice(['add', 'sub', 'mul', 'div', 'neg', 'pos', 'abs', 'T', 'H', 'real', 'imag', 'get1', 'get2', 'get2', 'copy',
                       'reshape', 'convert', 'emul', 'addnum', 'rsubnum', 'smul', 'ediv', 'emax', 'emin', 'vstack', 'hstack', 'fromlist',
                       'raddnum', 'mulnum', 'subnum', 'rem', 'pow', 'efun', 'blocks', 'blocks', 'fromnum', 'recast', 'trans', 'ctrans', 'nary'])
    nm = w.fresh()
    if kind == 'nary':
        # cvxopt.mul / max / min with three arguments or with one list argument
        cands = [k for k in names if w.o(k)['M'].size == (m, n) or w.o(k)['M'].size == (1, 1)]
        args = [{'k': 'ref', 'name': t}]
        if rng.random() < 0.25:
            # a reduction over a single operand is a copy of it: mul(A), mul([A]), max([A]), min([A])
            fn = rng.choice(['mul', 'max', 'min'])
            return ['derive', nm, 'nary', t, fn, args, True if fn != 'mul' else bool(rng.random() < 0.5)]
        for _ in range(rng.randint(1, 2)):
            if rng.random() < 0.25:
                args.append({'k': 'num', 'v': mkval(rng.choice(['i', 'd']), rng)})
            else:
                args.append({'k': 'ref', 'name': rng.choice(cands) if rng.random() < 0.9 else rng.choice(names)})
        rng.shuffle(args)
        return ['derive', nm, 'nary', t, rng.choice(['mul', 'max', 'min']), args, bool(rng.random() < 0.4)]
    if kind == 'blocks':
        # a list of block columns drawn from the pool (numbers are 1x1 blocks); mostly conforming
        def block_col(width, height=None):
            cands = [k for k in names if w.o(k)['M'].n == width]
            col, h = [], 0
            for _ in range(rng.randint(1, 3)):
                if width == 1 and rng.random() < 0.25:
                    col.append({'k': 'num', 'v': mkval(rng.choice(['i', 'd', 'z']), rng)})
                    h += 1
                elif cands:
                    pick = rng.choice(cands)
                    if height is not None:
                        fit = [k for k in cands if w.o(k)['M'].m == height - h]
                        if fit and rng.random() < 0.8:
                            pick = rng.choice(fit)
                    col.append({'k': 'ref', 'name': pick})
                    h += w.o(pick)['M'].m
                if height is not None and h >= height:
                    break
            if not col:
                col.append({'k': 'ref', 'name': t})
                h = m
            return col, h
        first, h = block_col(n)
        if rng.random() < 0.3:
            first.insert(rng.randrange(len(first) + 1), {'k': 'ref', 'name': t})
            h += m
        cols = [first]
        for _ in range(rng.choice([0, 0, 1, 1, 2])):
            width = rng.choice([n, 1, 2, w.o(rng.choice(names))['M'].n])
            c, _h = block_col(width, h)
            cols.append(c)
        flat = rng.random() < 0.25 and len(cols) == 1       # matrix([A, B]) instead of matrix([[A, B]])
        size = None
        if rng.random() < 0.15:
            tot = h * sum(1 for _ in cols)
            size = [rng.randint(0, 6), rng.randint(0, 4)]
        return ['derive', nm, 'blocks', t, cols, flat, size, rng.choice([None, None, None, 'i', 'd', 'z'])]
    if kind == 'fromnum':
        size = rng.choice([None, [rng.randint(0, 3), rng.randint(0, 3)], [rng.randint(1, 3), rng.randint(1, 3)], [-1, 2]])
        v_ = mkval(rng.choice(['i', 'd', 'z']), rng)
        if rng.random() < 0.08:
            v_ = rng.choice([2 ** 63, -2 ** 63 - 1, 2 ** 70])      # does not fit a 64-bit element
        return ['derive', nm, 'fromnum', t, {'k': 'num', 'v': v_}, size, rng.choice([None, None, 'i', 'd', 'z'])]
    if kind == 'recast':
        tot = m * n
        shapes = [(a, tot // a) for a in range(1, tot + 1) if tot % a == 0] if tot else [(0, 2), (3, 0), (0, 0)]
        sh = rng.choice(shapes) if rng.random() < 0.9 else (m + 1, n + 1)
        tcs = [c for c in 'idz' if MDL.ORDER[c] >= MDL.ORDER[tc]] if tot == 0 else ['i', 'd', 'z']
        return ['derive', nm, 'recast', t, list(sh), rng.choice(tcs)]
    if kind == 'rem':
        if rng.random() < 0.25:
            cands = [k for k in names if w.o(k)['M'].size == (1, 1)]
            if cands and rng.random() < 0.8:
                return ['derive', nm, 'rem', t, {'k': 'ref', 'name': rng.choice(cands)}]
            return ['derive', nm, 'rem', t, {'k': 'ref', 'name': rng.choice(names)}]
        return ['derive', nm, 'rem', t, {'k': 'num', 'v': rng.choice([1, -1, 2, 3, -3, 5, 2.0, -2.0, 0.5, 4, 2.5, -0.75, 0, 0.0, [0.0, 2.0]])}]
    if kind == 'pow':
        return ['derive', nm, 'pow', t, {'k': 'num', 'v': rng.choice([2, 3, 0, 1, -1, -2, 2.0, 0.5, -1.0, [2.0, 0.0], [0.0, 1.0], [-1.0, 0.0]])}]
    if kind == 'efun':
        arg = None
        if rng.random() < 0.15:
            arg = {'k': 'num', 'v': rng.choice([0, 1, 2, -1, 0.5, -2.5, 4.0, [0.0, 0.0], [1.0, -2.0], [-4.0, 0.0]])}
        return ['derive', nm, 'efun', t, rng.choice(['exp', 'log', 'sqrt', 'cos', 'sin']), arg]
    if kind == 'fromlist':
        vt = rng.choice(['i', 'd', 'z'])
        mm, nn = rng.randint(0, 3), rng.randint(0, 3)
        cnt = mm * nn if rng.random() < 0.9 else mm * nn + 1
        form = rng.choice(['list', 'list', 'tuple', 'nosize'])
        return ['derive', nm, 'fromlist', t, {'k': 'list', 'v': [mkval(vt, rng) for _ in range(cnt)]}, [mm, nn], rng.choice([None, None, 'i', 'd', 'z']), form]
    if kind in ('vstack', 'hstack'):
        cands = [k for k in names if (w.o(k)['M'].n == n if kind == 'vstack' else w.o(k)['M'].m == m)]
        other = rng.choice(cands) if cands and rng.random() < 0.9 else rng.choice(names)
        return ['derive', nm, kind, t, other]
    if kind in ('add', 'sub', 'emul', 'ediv', 'emax', 'emin'):
        cands = [k for k in names if w.o(k)['M'].size == (m, n) or w.o(k)['M'].size == (1, 1)]
        if kind == 'ediv':
            cands = [k for k in cands if all(v != 0 for v in w.o(k)['M'].v) and all(abs(v) in (1, 2, 4, 0.5) for v in w.o(k)['M'].v)]
            if not cands:
                return ['derive', nm, 'pos', t]
        if kind == 'ediv':
            other = rng.choice(cands)         # only exactly invertible divisors: everything must stay exact
        else:
            other = rng.choice(cands) if cands and rng.random() < 0.9 else rng.choice(names)
        return ['derive', nm, kind, t, other]
    if kind == 'mul':
        cands = [k for k in names if w.o(k)['M'].m == n or w.o(k)['M'].size == (1, 1)]
        other = rng.choice(cands) if cands and rng.random() < 0.9 else rng.choice(names)
        return ['derive', nm, 'mul', t, other]
    if kind == 'div':
        r_ = rng.random()
        if r_ < 0.2:
            return ['derive', nm, 'div', t, gen_dense1(rng, rng.choice([2, -2, 4, 1]), rng.choice([tc, 'i', 'd', 'z']))]
        if r_ < 0.27:
            return ['derive', nm, 'div', t, {'k': 'num', 'v': rng.choice([0, 0.0, [0.0, 0.0]])}]
        big_ = [k for k in names if w.o(k)['M'].size != (1, 1)]
        if r_ < 0.32 and big_:
            return ['derive', nm, 'div', t, {'k': 'ref', 'name': rng.choice(big_)}]
        return ['derive', nm, 'div', t, {'k': 'num', 'v': rng.choice([1, -1, 2, 2.0, -2.0, 0.5, 4.0, [0.0, 2.0], [0.0, -1.0]])}]
    if kind in ('addnum', 'rsubnum', 'smul', 'raddnum', 'mulnum', 'subnum'):
        return ['derive', nm, kind, t, {'k': 'num', 'v': mkval(rng.choice([tc, 'i', 'd', 'z']), rng)}]
    if kind == 'get1':
        return ['derive', nm, 'get1', t, SPS.gen_index(rng, m * n, for_assign=False)]
    if kind == 'get2':
        return ['derive', nm, 'get2', t, SPS.gen_index(rng, m, for_assign=False), SPS.gen_index(rng, n, for_assign=False)]
    if kind == 'reshape':
        tot = m * n
        shapes = [(a, tot // a) for a in range(1, tot + 1) if tot % a == 0] if tot else [(0, 2), (3, 0), (0, 0)]
        sh = rng.choice(shapes) if rng.random() < 0.9 else (m + 1, n + 1)
        return ['derive', nm, 'reshape', t, list(sh)]
    if kind == 'convert':
        if m * n == 0:
            return ['derive', nm, 'convert', t, rng.choice([c for c in 'idz' if MDL.ORDER[c] >= MDL.ORDER[tc]])]
        return ['derive', nm, 'convert', t, rng.choice(['i', 'd', 'z'])]
    return ['derive', nm, kind, t]


# ----------------------------------------------------------------------------- execution

class Mismatch(Exception):
    def __init__(self, oracle, detail, **sig):
        Exception.__init__(self, detail)
        self.oracle, self.detail, self.sig = oracle, detail, sig


DOC_EXC = (TypeError, ValueError, IndexError, ArithmeticError, OverflowError)


def attempt(opname, real_fn, model_fn, **extra):
    """run the real and the model action; compare refusal behaviour; returns (real result, model result, refused)"""
    rex = mex = None
    rr = mr = None
    try:
        rr = real_fn()
    except DOC_EXC as e:
        rex = e
    except NotImplementedError as e:
        if str(e) != 'complex modulo':      # the one operation the package declares not implemented
            raise Mismatch('undocumented-exception', '%s raised %s(%s)' % (opname, type(e).__name__, e), op=opname, exc=type(e).__name__, **extra)
        rex = e
    except Exception as e:     # noqa
        raise Mismatch('undocumented-exception', '%s raised %s(%s)' % (opname, type(e).__name__, e), op=opname, exc=type(e).__name__, **extra)
    try:
        mr = model_fn()
    except MDL.Refuse as e:
        mex = e
    if (rex is None) != (mex is None):
        raise Mismatch('refusal-differs', '%s: real matrix %s, the model %s' %
                       (opname, 'raised %s(%s)' % (type(rex).__name__, rex) if rex else 'accepted the operation',
                        'refuses (%s)' % mex if mex else 'has an answer'), op=opname,
                       real_exc=type(rex).__name__ if rex else None, model=mex.kind if mex else None, **extra)
    if rex is not None and mex.kind == 'IndexError' and not isinstance(rex, IndexError) and opname.startswith('derive.get'):
        # reads have no other reason to refuse, so the type is defined; an assignment may be invalid in two ways at once
        raise Mismatch('exception-type', '%s: out-of-range index raised %s instead of IndexError' % (opname, type(rex).__name__), op=opname, **extra)
    return rr, mr, rex is not None


def operand(w, spec):
    """(real object or number, model object or number)"""
    k = spec['k']
    if k == 'num':
        v = lit(spec['v'])
        return v, v
    if k == 'list':
        v = [lit(x) for x in spec['v']]
        return (tuple(v) if spec.get('form') == 'tuple' else v), list(v)
    if k == 'ref':
        e = w.o(spec['name'])
        return e['X'], e['M']
    if k == 'sparse':
        # a sparse right-hand side is converted to dense in the assignment to a dense matrix
        zero = 0.0 if spec['tc'] == 'd' else 0j
        vals = [zero] * (spec['m'] * spec['n'])
        for i, j, v in zip(spec['I'], spec['J'], spec['V']):
            vals[j * spec['m'] + i] = lit(v)
        return SPS.mk(spec), MDL.MM(spec['tc'], spec['m'], spec['n'], vals)
    return SPS.mk(spec), model_of(spec)


def same(X, M):
    from cvxopt import matrix
    if not isinstance(X, matrix):
        return False
    if X.size != (M.m, M.n) or X.typecode != M.tc:
        return False
    xv = list(X)
    if len(xv) != len(M.v):
        return False
    for a, b in zip(xv, M.v):
        if a != b or (type(a) is not type(b)):
            return False
    return True


def apply(op, w, stats):
    from cvxopt import matrix, mul as cmul
    kind = op[0]

    def bump(k):
        stats[k] = stats.get(k, 0) + 1
    bump('op.' + kind + ('.' + op[2] if kind in ('derive', 'iop') else ''))
    if kind == 'new':
        w.bind(op[1], SPS.mk(op[2]), model_of(op[2]))
        return
    if kind == 'alias':
        if op[2] in w.names:
            w.names[op[1]] = w.names[op[2]]
        return
    if kind == 'del':
        w.names.pop(op[1], None)
        live = set(w.names.values())
        for oid in list(w.objs):
            if oid not in live:
                del w.objs[oid]       # drops the last reference (and its memoryviews)
        return
    refs = [a for a in op[1:] if isinstance(a, str) and a.startswith('n') and a[1:].isdigit()]
    if kind == 'derive':
        refs = [a for a in op[3:] if isinstance(a, str) and a.startswith('n') and a[1:].isdigit()]
    for a in op:
        if isinstance(a, dict) and a.get('k') == 'ref':
            refs.append(a['name'])
    if kind == 'derive' and op[2] == 'blocks':
        refs += [b['name'] for col in op[4] for b in col if b.get('k') == 'ref']
    if kind == 'derive' and op[2] == 'nary':
        refs += [b['name'] for b in op[5] if b.get('k') == 'ref']
    if any(a not in w.names for a in refs):
        return
    if kind == 'iop':
        e = w.o(op[1])
        X, M = e['X'], e['M']
        b_real, b_model = operand(w, op[3])
        opn = op[2]
        if b_model is M:
            b_model_use = M.copy()      # A op= A: the right-hand side is read before it is overwritten elementwise
        else:
            b_model_use = b_model

        import operator
        res_box = []

        def fr():
            # the statement form A op= B: Python falls back to the reflected regular operator of B when
            # A's in-place slot declines, and then rebinds the name to a new object
            f = {'+=': operator.iadd, '-=': operator.isub, '*=': operator.imul, '%=': operator.imod, '/=': operator.itruediv}[opn]
            res_box.append(f(X, b_real))
        _, _, refused = attempt('iop' + opn, fr, lambda: MDL.inplace(M, opn, b_model_use), inplace=opn)
        if not refused and res_box and res_box[0] is not X:
            raise Mismatch('inplace-returned-new-object', 'A %s B (B: %s) produced a new object: other names bound to A do not see the change' %
                           (opn, op[3].get('k')), op='iop' + opn, operand=op[3].get('k'))
        if not refused:
            e['mut'] += 1
            if len(w.names_of(w.names[op[1]])) >= 2 or e['views']:
                e['nontrivial_mut'] += 1
                bump('probe.inplace_operator_on_object_with_several_names_or_views')
            if b_model is M:
                bump('probe.inplace_operator_with_itself_as_operand')
            if M.m * M.n == 0:
                bump('probe.inplace_operator_on_empty_matrix')
        else:
            bump('refused')
            bump('probe.inplace_operator_refused')
        return
    if kind in ('set1', 'set2'):
        e = w.o(op[1])
        X, M = e['X'], e['M']
        r_real, r_model = operand(w, op[-1])
        if kind == 'set1':
            def fr():
                X[SPS.mkidx(op[2])] = r_real
            fm = lambda: MDL.set1(M, op[2], r_model)       # noqa
        else:
            def fr():
                X[SPS.mkidx(op[2]), SPS.mkidx(op[3])] = r_real
            fm = lambda: MDL.set2(M, op[2], op[3], r_model)   # noqa
        _, _, refused = attempt(kind, fr, fm, rhs=op[-1]['k'])
        if not refused:
            e['mut'] += 1
            if len(w.names_of(w.names[op[1]])) >= 2 or e['views']:
                e['nontrivial_mut'] += 1
        else:
            bump('refused')
        return
    if kind == 'size':
        e = w.o(op[1])
        X, M = e['X'], e['M']
        sh = tuple(op[2])

        def fr():
            X.size = sh
        _, _, refused = attempt('size', fr, lambda: MDL.set_size(M, sh[0], sh[1]), exported=bool(e['views']))
        if not refused:
            e['mut'] += 1
            if e['views']:
                bump('probe.size_changed_while_exported')
        return
    if kind == 'mvopen':
        e = w.o(op[1])
        if len(e['views']) < 2:
            e['views'].append(memoryview(e['X']))
        return
    if kind == 'mvwrite':
        e = w.o(op[1])
        X, M = e['X'], e['M']
        i, j, v = op[2], op[3], lit(op[4])
        if i >= M.m or j >= M.n or M.tc == 'z':
            return
        mv = memoryview(X)
        mv[i, j] = v
        M.v[j * M.m + i] = MDL.conv(v, M.tc)
        e['mut'] += 1
        e['nontrivial_mut'] += 1
        bump('probe.write_through_memoryview')
        return
    if kind == 'query':
        e = w.o(op[1])
        X, M = e['X'], e['M']
        q, arg = op[2], op[3]
        import cvxopt
        if q == 'sum':
            fr, fm = (lambda: sum(X)), (lambda: sum(M.v))
        elif q == 'len':
            fr, fm = (lambda: len(X)), (lambda: len(M.v))
        elif q == 'bool':
            fr, fm = (lambda: bool(X)), (lambda: any(x != 0 for x in M.v))
        elif q == 'in':
            fr, fm = (lambda: arg in X), (lambda: any(x == arg for x in M.v))
        elif q == 'iter':
            fr, fm = (lambda: list(iter(X))), (lambda: list(M.v))
        elif q in ('bmax', 'bmin'):
            import builtins
            if M.tc == 'z' or not M.v:
                return
            f_ = builtins.max if q == 'bmax' else builtins.min
            fr, fm = (lambda: f_(X)), (lambda: f_(M.v))
        elif q == 'sumstart':
            fr, fm = (lambda: sum(X, arg)), (lambda: sum(M.v, arg))
        elif q == 'inf':
            fr, fm = (lambda: float(arg) in X), (lambda: any(x == float(arg) for x in M.v))
        elif q == 'max':
            if M.tc == 'z' or not M.v:
                return
            fr, fm = (lambda: cvxopt.max(X)), (lambda: max(M.v))
        else:
            if M.tc == 'z' or not M.v:
                return
            fr, fm = (lambda: cvxopt.min(X)), (lambda: min(M.v))
        rr, mr, refused = attempt('query.' + q, fr, fm)
        if not refused and (rr != mr or type(rr) is not type(mr)):
            raise Mismatch('query-differs', '%s: real %r, model %r' % (q, rr, mr), op='query.' + q)
        return
    if kind == 'derive':
        nm, dk, src = op[1], op[2], op[3]
        e = w.o(src)
        X, M = e['X'], e['M']
        if dk == 'fromlist':
            vals = [lit(x) for x in op[4]['v']]
            sh, tcx = tuple(op[5]), op[6]
            form = op[7] if len(op) > 7 else 'list'
            seq = tuple(vals) if form == 'tuple' else vals
            if form == 'nosize':
                # a sequence of numbers without a size is a column vector
                kw_ = {'tc': tcx} if tcx is not None else {}
                fr, fm = (lambda: matrix(seq, **kw_)), (lambda: MDL.fromlist(vals, len(vals), 1, tcx))
            elif tcx is None:
                fr, fm = (lambda: matrix(seq, sh)), (lambda: MDL.fromlist(vals, sh[0], sh[1], None))
            else:
                fr, fm = (lambda: matrix(seq, sh, tcx)), (lambda: MDL.fromlist(vals, sh[0], sh[1], tcx))
        elif dk in ('ediv', 'emax', 'emin', 'vstack', 'hstack'):
            import cvxopt
            o = w.o(op[4])
            Y, N = o['X'], o['M']
            if dk == 'ediv':
                fr, fm = (lambda: cvxopt.div(X, Y)), (lambda: MDL.ediv(M, N))
            elif dk == 'emax':
                fr, fm = (lambda: cvxopt.max(X, Y)), (lambda: MDL.eminmax(M, N, 'max'))
            elif dk == 'emin':
                fr, fm = (lambda: cvxopt.min(X, Y)), (lambda: MDL.eminmax(M, N, 'min'))
            elif dk == 'vstack':
                fr, fm = (lambda: matrix([X, Y])), (lambda: MDL.vstack(M, N))
            else:
                fr, fm = (lambda: matrix([[X], [Y]])), (lambda: MDL.hstack(M, N))
        elif dk in ('add', 'sub', 'mul', 'emul'):
            o = w.o(op[4])
            Y, N = o['X'], o['M']
            if dk == 'add':
                fr, fm = (lambda: X + Y), (lambda: MDL.add(M, N, 1))
            elif dk == 'sub':
                fr, fm = (lambda: X - Y), (lambda: MDL.add(M, N, -1))
            elif dk == 'mul':
                fr, fm = (lambda: X * Y), (lambda: MDL.mul(M, N))
            else:
                fr, fm = (lambda: cmul(X, Y)), (lambda: MDL.emul(M, N))
        elif dk == 'div' and op[4]['k'] != 'num':
            Y, N = operand(w, op[4])
            fr, fm = (lambda: X / Y), (lambda: MDL.div(M, N))
        elif dk in ('div', 'addnum', 'rsubnum', 'smul', 'raddnum', 'mulnum', 'subnum'):
            v = lit(op[4]['v'])
            if dk == 'raddnum':
                fr, fm = (lambda: v + X), (lambda: MDL.add(M, v, 1))
            elif dk == 'mulnum':
                fr, fm = (lambda: X * v), (lambda: MDL.mul(M, v))
            elif dk == 'subnum':
                fr, fm = (lambda: X - v), (lambda: MDL.add(M, v, -1))
            elif dk == 'div':
                fr, fm = (lambda: X / v), (lambda: MDL.div(M, v))
            elif dk == 'addnum':
                fr, fm = (lambda: X + v), (lambda: MDL.add(M, v, 1))
            elif dk == 'rsubnum':
                fr, fm = (lambda: v - X), (lambda: MDL.rsub(M, v))
            else:
                fr, fm = (lambda: v * X), (lambda: MDL.mul(M, v))
        elif dk == 'blocks':
            cols, flat, size, tcx = op[4], op[5], op[6], op[7]
            pairs = [[operand(w, b) for b in col] for col in cols]
            rcols = [[pr[0] for pr in col] for col in pairs]
            mcols = [[pr[1] for pr in col] for col in pairs]
            arg = rcols[0] if flat else rcols
            if flat and all(not isinstance(x, matrix) for x in arg):
                return        # a flat list of numbers is a column vector (fromlist), not a block column
            kw = {}
            if tcx is not None:
                kw['tc'] = tcx
            if size is not None:
                kw['size'] = tuple(size)
            fr, fm = (lambda: matrix(arg, **kw)), (lambda: MDL.blocks(mcols, tcx, tuple(size) if size is not None else None))
        elif dk == 'nary':
            import cvxopt
            fname, specs, aslist = op[4], op[5], op[6]
            pairs = [operand(w, sp) for sp in specs]
            ra, ma = [pr[0] for pr in pairs], [pr[1] for pr in pairs]
            f = getattr(cvxopt, fname)
            if all(not isinstance(x, MDL.MM) for x in ma):
                return
            if fname != 'mul' and any((isinstance(x, MDL.MM) and x.tc == 'z') or isinstance(x, complex) for x in ma):
                return        # no order on complex numbers (refused; checked by the two-argument forms)
            fr = (lambda: f(ra) if aslist else f(*ra))

            def fm():
                def two(a, b):
                    if not isinstance(a, MDL.MM):
                        if not isinstance(b, MDL.MM):
                            # two plain numbers: the Python result, a number
                            r = a * b if fname == 'mul' else (max(a, b) if fname == 'max' else min(a, b))
                            return MDL.conv(r, MDL.promote(MDL.tcnum(a), MDL.tcnum(b)))
                        a, b = b, a
                    if not isinstance(b, MDL.MM):
                        b = MDL.MM(MDL.tcnum(b), 1, 1, [b])
                    return MDL.emul(a, b) if fname == 'mul' else MDL.eminmax(a, b, fname)
                acc = ma[0]
                for x in ma[1:]:
                    acc = two(acc, x)
                return acc if not isinstance(acc, MDL.MM) else acc.copy()
        elif dk == 'fromnum':
            v = lit(op[4]['v'])
            size, tcx = op[5], op[6]
            args = [v] + ([tuple(size)] if size is not None else []) + ([tcx] if tcx is not None and size is not None else [])
            kw = {'tc': tcx} if tcx is not None and size is None else {}
            fr, fm = (lambda: matrix(*args, **kw)), (lambda: MDL.fromnum(v, tuple(size) if size is not None else None, tcx))
        elif dk == 'recast':
            sh = tuple(op[4])
            fr, fm = (lambda: matrix(X, sh, op[5])), (lambda: MDL.recast(M, sh, op[5]))
        elif dk == 'trans':
            fr, fm = (lambda: X.trans()), (lambda: MDL.trans(M))
        elif dk == 'ctrans':
            fr, fm = (lambda: X.ctrans()), (lambda: MDL.trans(M, True))
        elif dk == 'rem':
            Y, N = operand(w, op[4])
            fr, fm = (lambda: X % Y), (lambda: MDL.rem(M, N))
        elif dk in ('pow', 'efun'):
            return apply_inexact(op, w, X, M, bump)
        elif dk == 'neg':
            fr, fm = (lambda: -X), (lambda: MDL.neg(M))
        elif dk == 'pos':
            fr, fm = (lambda: +X), (lambda: M.copy())
        elif dk == 'abs':
            if M.tc == 'z':
                return        # moduli are not exact
            fr, fm = (lambda: abs(X)), (lambda: MDL.absm(M))
        elif dk == 'T':
            fr, fm = (lambda: X.T), (lambda: MDL.trans(M))
        elif dk == 'H':
            fr, fm = (lambda: X.H), (lambda: MDL.trans(M, True))
        elif dk == 'real':
            fr, fm = (lambda: X.real()), (lambda: MDL.real(M))
        elif dk == 'imag':
            fr, fm = (lambda: X.imag()), (lambda: MDL.imag(M))
        elif dk == 'get1':
            fr, fm = (lambda: X[SPS.mkidx(op[4])]), (lambda: MDL.get1(M, op[4]))
        elif dk == 'get2':
            fr, fm = (lambda: X[SPS.mkidx(op[4]), SPS.mkidx(op[5])]), (lambda: MDL.get2(M, op[4], op[5]))
        elif dk == 'copy':
            fr, fm = (lambda: matrix(X)), (lambda: M.copy())
        elif dk == 'reshape':
            sh = tuple(op[4])
            fr, fm = (lambda: matrix(X, sh)), (lambda: MDL.reshape(M, sh[0], sh[1]))
        elif dk == 'convert':
            fr, fm = (lambda: matrix(X, tc=op[4])), (lambda: MDL.convert(M, op[4]))
        else:
            raise ValueError(dk)
        rr, mr, refused = attempt('derive.' + dk, fr, fm, tc=M.tc)
        if refused:
            bump('refused')
            bump('refused.' + dk)
            return
        if isinstance(mr, MDL.MM):
            if not isinstance(rr, matrix):
                raise Mismatch('result-class', '%s returned %s, the model a matrix' % (dk, type(rr).__name__), op='derive.' + dk)
            for oid, oe in w.objs.items():
                if oe['X'] is rr:
                    raise Mismatch('not-a-new-object', '%s returned an existing object instead of a new one' % dk, op='derive.' + dk)
            if not same(rr, mr):
                raise Mismatch('model-differs', '%s: result %s %s %r, model %s %s %r' %
                               (dk, rr.typecode, rr.size, list(rr)[:8], mr.tc, mr.size, mr.v[:8]), op='derive.' + dk, tc=M.tc)
            if all(abs(v) < 1e6 for v in mr.v):
                w.bind(nm, rr, mr)        # larger magnitudes would leave the range where all arithmetic is exact
        else:
            if isinstance(rr, matrix) or rr != mr or type(rr) is not type(mr):
                raise Mismatch('model-differs', '%s: scalar result %r, model %r' % (dk, rr, mr), op='derive.' + dk, tc=M.tc)
        return
    raise ValueError(kind)


def close(a, b, tol):
    if a == b:
        return True
    try:
        return abs(a - b) <= tol * max(abs(a), abs(b), 1e-300)
    except OverflowError:
        return False


def apply_inexact(op, w, X, M, bump):
    """A ** number and the elementwise functions exp, log, sqrt, cos, sin: size, type, refusals and
    newness are exact matters, the values are those of the C library — compared with Python's
    math (same libm: 4 ulp allowed) and cmath (other algorithms: 1e-12 relative); the result does
    not join the pool, where everything must stay exact"""
    import cvxopt
    from cvxopt import matrix
    dk = op[2]
    if any(abs(v) > 30 for v in M.v):
        return        # exp overflows and huge arguments of sin/cos are not what this is about
    if dk == 'pow':
        e = lit(op[4]['v'])
        fr, fm = (lambda: X ** e), (lambda: MDL.powm(M, e))
        size = M.size
        scalar_arg = False
    else:
        fname, arg = op[4], op[5]
        f = getattr(cvxopt, fname)
        if arg is not None:
            a = lit(arg['v'])
            fr, fm = (lambda: f(a)), (lambda: MDL.efun(fname, a))
            scalar_arg = True
        else:
            fr, fm = (lambda: f(X)), (lambda: MDL.efun(fname, M))
            scalar_arg = False
        size = M.size
    opname = 'derive.' + dk + ('' if dk == 'pow' else '.' + op[4])
    rr, mr, refused = attempt(opname, fr, fm, tc=M.tc)
    if refused:
        bump('refused')
        return
    tc, vals = mr
    tol = 1e-12 if tc == 'z' else 1e-15
    # on a branch cut the sign of a zero imaginary part decides, and the model does not track signed
    # zeros: a second model value is computed with the other sign
    vals_alt = vals
    if tc == 'z' and not scalar_arg:
        try:
            M2 = MDL.MM('z', M.m, M.n, [0j] * (M.m * M.n))
            M2.v = [complex(complex(v).real, -complex(v).imag) if complex(v).imag == 0 else complex(v) for v in M.v]     # the other zero
            vals_alt = (MDL.powm(M2, lit(op[4]['v'])) if dk == 'pow' else MDL.efun(op[4], M2))[1]
        except MDL.Refuse:
            vals_alt = vals
    if scalar_arg:
        want = complex if tc == 'z' else float
        if type(rr) is not want or not (close(rr, vals[0], tol) or (tc == 'z' and a.imag == 0 and close(rr, vals[0].conjugate(), tol))):
            raise Mismatch('model-differs', '%s of the number %r: %r, the model %r' % (op[4], lit(op[5]['v']), rr, vals[0]), op=opname, tc='num')
        return
    if not isinstance(rr, matrix):
        raise Mismatch('result-class', '%s returned %s, the model a matrix' % (opname, type(rr).__name__), op=opname)
    for oid, oe in w.objs.items():
        if oe['X'] is rr:
            raise Mismatch('not-a-new-object', '%s returned an existing object instead of a new one' % opname, op=opname)
    got = list(rr)

    def agree(a, b, src, b2=None):
        if b is None or close(a, b, tol) or (b2 is not None and close(a, b2, tol)):
            return True
        # on the branch cut (negative real axis) the sign of a zero imaginary part decides, and the
        # model does not track signed zeros
        return tc == 'z' and complex(src).imag == 0 and close(a, b.conjugate(), tol)
    if rr.size != size or rr.typecode != tc or len(got) != len(vals) or not all(agree(a, b, c, b2) for a, b, c, b2 in zip(got, vals, M.v, vals_alt)):
        raise Mismatch('model-differs', '%s: result %s %s %r, model %s %s %r' % (opname, rr.typecode, rr.size, got[:6], tc, size, vals[:6]),
                       op=opname, tc=M.tc)


def check_world(w, opname):
    seen = {}
    for name, oid in w.names.items():
        e = w.objs[oid]
        if not same(e['X'], e['M']):
            X, M = e['X'], e['M']
            raise Mismatch('model-differs', 'after %s: %s is %s %s %r, the model says %s %s %r' %
                           (opname, name, X.typecode, X.size, list(X)[:10], M.tc, M.size, M.v[:10]), op=opname)
        for mv in e['views']:
            try:
                flat = [x for row in mv.tolist() for x in row] if mv.ndim == 2 else mv.tolist()
            except NotImplementedError:
                flat = None         # complex format: memoryview cannot unpack 'Zd'
            if flat is not None:
                # the view was exported with the shape at export time; compare contents in memory order
                want = list(e['M'].v)
                got = [x for col in zip(*mv.tolist()) for x in col] if mv.ndim == 2 and mv.shape[0] and mv.shape[1] else flat
                if len(got) == len(want) and got != want:
                    raise Mismatch('view-differs', 'after %s: a memoryview of %s no longer shows the matrix contents' % (opname, name), op=opname)


def opname_of(op):
    if op[0] in ('derive', 'iop'):
        return op[0] + '.' + op[2]
    return op[0]


def run_ops(ops, journal, rng=None, nops=0, stats=None, alloc_mode='guard'):
    if SPS._vp:
        SPS._vp.vp_set_mode(SPS.ALLOC_MODES.get(alloc_mode, 0))
    w = World()
    log = core.Log()
    stats = stats if stats is not None else {}
    done = []
    i = 0
    violation = None
    while True:
        if rng is not None:
            if i >= nops:
                break
            op = gen_op(rng, w)
        else:
            if i >= len(ops):
                break
            op = ops[i]
            if op[0] in ('new', 'derive', 'alias') and op[1][1:].isdigit():
                w.counter = max(w.counter, int(op[1][1:]))
        journal.log_op(i, op)
        done.append(op)
        name = opname_of(op)
        try:
            apply(op, w, stats)
            check_world(w, name)
            # products of two entries must stay below 2^53 to be exact in any order of accumulation: names of
            # objects whose entries have grown beyond 1e6 are dropped after this last exact comparison
            for nm_ in [nm_ for nm_, oid_ in w.names.items() if any(abs(v_) > 1e6 for v_ in w.objs[oid_]['M'].v)]:
                del w.names[nm_]
            live_ = set(w.names.values())
            for oid_ in [o_ for o_ in w.objs if o_ not in live_]:
                del w.objs[oid_]
            bad = SPS.check_indices()
            if bad:
                raise Mismatch('operand-modified', '%s: %s' % (name, bad), op=name, operand='index')
            nv, txt = SPS.seam_check()
            if nv:
                raise Mismatch('allocator-seam', 'after %s: %s' % (name, txt), op=name)
        except Mismatch as mm:
            sig = {'oracle': mm.oracle}
            sig.update(mm.sig)
            sig.setdefault('op', name)
            violation = {'oracle': mm.oracle, 'klass': '%s:%s' % (mm.oracle, sig['op']), 'sig': sig, 'detail': mm.detail}
            journal.end_op(i)
            break
        journal.end_op(i)
        log.add(i, name)
        stats['steps'] = stats.get('steps', 0) + 1
        i += 1
    nontrivial = any(e['nontrivial_mut'] >= 2 for e in w.objs.values())
    return violation, done, log.digest(), nontrivial


def crash_sig(case, inflight):
    ops = case.get('ops') or []
    if inflight is not None and inflight < len(ops):
        return {'op': opname_of(ops[inflight])}
    return {}


def execute(case, journal):
    warmup()
    v, done, dig, nt = run_ops(case['ops'], journal, alloc_mode=case.get('alloc_mode', 'guard'))
    return {'violation': v, 'digest': dig, 'stats': {}}


def run_unit(seed, tier, r, journal):
    warmup()
    rng = random.Random(seed)
    res = {'evaluations': 0, 'nontrivial_digests': [], 'stats': {}, 'violations': [], 'samples': [], 'digest': None}
    ulog = core.Log()
    for k in range(HIST_PER_UNIT):
        mode = rng.choice(['guard', 'efence_end', 'efence_end', 'efence_start']) if SPS._vp else 'guard'
        journal.begin_case({'ops': [], 'alloc_mode': mode})
        v, done, dig, nt = run_ops(None, journal, rng=rng, nops=rng.randint(5, 25), stats=res['stats'], alloc_mode=mode)
        journal.end_case()
        res['evaluations'] += 1
        ulog.add(k, dig)
        if nt:
            res['nontrivial_digests'].append(core.sha(done))
        if v is not None:
            res['violations'].append({'case': {'ops': done, 'alloc_mode': mode}, 'violation': v})
            # the interpreter's state is suspect after a violation (reference counts, heap): report now instead
            # of dying in a later, innocent history — unless it is a listed known finding (a refusal)
            if not core.match_known(core.load_known(PROPERTY), v['sig']):
                break
        if k == 0 and r % 16 == 0:
            res['samples'].append({'ops': done[:14], 'total_ops': len(done), 'alloc_mode': mode})
    res['digest'] = ulog.digest()
    return res


def shrink(case, still_fails):
    small = core.ddmin(case['ops'], lambda sub: bool(sub) and still_fails(dict(case, ops=sub)), budget=150)
    return dict(case, ops=small) if small else case
