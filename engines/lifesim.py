"""lifesim — C20: matrices survive serialisation, copying and buffer exchange unchanged (DESIGN 5.C20).

Histories of export / write-through / release / owner-drop / gc / allocator churn / resize / copies
(matrix(x), +x, slices, copy, deepcopy, pickle protocols 0-5 through bytes or a stream) / rebind /
tofile-fromfile through a simulated stream with injected faults / buffer import, against a model of
storage and aliasing.  The allocator seam (poison-on-free, electric-fence arena) makes "the exported
buffer stays valid" observable.
"""
import array
import copy
import ctypes
import gc
import io
import pickle
import random
import struct
import sys

from simkit import core
from simkit import matmodel as MDL
from simkit import oracles as O
from engines import sparsesim as SPS
from engines import densesim as DNS

NAME = 'lifesim'
PROPERTY = 'C20'
LEVEL = 'exploration'
RULE = ('evaluation = one history of 5-25 operations over a table of owners (dense i/d/z and sparse d/z matrices, incl. empty shapes), '
        'exported memoryviews (also nested) and copies: export, write through a view, write through the owner, release, drop the last '
        'name of an owner while views are live, gc.collect(), allocator churn (free-list reuse), size reassignment while exported, in-place '
        'ops, copies by matrix(x) / +x / slicing / copy / deepcopy / pickle protocol 0-5 (bytes or stream), plain rebinding, tofile/fromfile '
        'through a simulated stream (fault-free or EOF after b bytes / read raising OSError / read returning str / write raising OSError), '
        'import from buffer exporters (array.array i/l/q/d, strided 1-D and C-contiguous 2-D memoryviews, ctypes arrays; unsupported '
        'formats must raise) followed by mutation of the source. non-trivial = history with an export that outlives a mutation, a drop or '
        'a gc, or a faulted stream operation that fired; distinct = distinct digest of the operation list.')
SIM_TIME_NOTE = 'no clock; sim_steps = operations applied'
STUBS = ['simulated stream (in-memory) with EOF-at-byte-b / OSError / wrong-type faults',
         'allocator seam libvpalloc: poison-on-free + quarantine flush (guard mode) or electric-fence slot arena',
         'reference model: values per storage + alias relation (names/views -> storage)']
ASSUMPTIONS = ['CPython reference counting (deterministic release order)',
               '2-D strided sources are produced by slicing the rows of a dense matrix through memoryview (unit row stride, larger column stride); general 2-D strides and C/Fortran mixes would need NumPy, which /venv does not have',
               'short writes that report success are not injected (the property defines no behaviour for them)']
TIERS = {'quick': {'units': 96, 'wall_cap': 70.0, 'unit_timeout': 300.0},
         'thorough': {'units': 8000, 'wall_cap': 900.0, 'unit_timeout': 600.0}}
HIST_PER_UNIT = 150
CRASHES_ARE_VERDICTS = True
ITEM = {'i': ('q', 8), 'd': ('d', 8), 'z': ('dd', 16)}


def warmup():
    SPS.warmup()


class Mismatch(DNS.Mismatch):
    pass


class SimStream:
    """the stream argument of tofile/fromfile, owned by the simulator"""

    def __init__(self, fault=None):
        self.data = b''
        self.fault = fault
        self.fired = False
        self.pos = 0

    def write(self, b):
        if self.fault and self.fault[0] == 'write_oserror':
            self.fired = True
            raise OSError(28, 'VERIF injected: no space left on device')
        self.data += bytes(b)
        return len(b)

    def read(self, n=-1):
        f = self.fault
        if f and f[0] == 'read_oserror':
            self.fired = True
            raise OSError(5, 'VERIF injected: input/output error')
        if f and f[0] == 'read_str':
            self.fired = True
            return 'x' * max(n, 0)
        if f and f[0] == 'read_none':
            self.fired = True
            return None
        if f and f[0] in ('read_long', 'read_bytearray'):
            chunk = self.data[self.pos:self.pos + n] if n >= 0 else self.data[self.pos:]
            self.pos += len(chunk)
            self.fired = True
            return (chunk + b'\x00' * 8) if f[0] == 'read_long' else bytearray(chunk)
        chunk = self.data[self.pos:self.pos + n] if n >= 0 else self.data[self.pos:]
        if f and f[0] == 'eof':
            if f[1] < len(chunk):
                self.fired = True
            chunk = chunk[:f[1]]
        self.pos += len(chunk)
        return chunk


def _bits(v):
    if isinstance(v, complex):
        return struct.pack('dd', v.real, v.imag)
    if isinstance(v, float):
        return struct.pack('d', v)
    return v


def same_dense(X, M):
    """size, typecode and every value exactly (nan equals nan; denormals, infinities and 64-bit integers included)"""
    from cvxopt import matrix
    if not isinstance(X, matrix) or X.size != (M.m, M.n) or X.typecode != M.tc:
        return False
    xv = list(X)
    if len(xv) != len(M.v):
        return False
    return all(same_value(a, b) for a, b in zip(xv, M.v))


def _same_part(a, b):
    # equal as numbers (this lets +0.0 pass for -0.0: BLAS scaling and complex construction do not keep the sign
    # of a zero), or the same bits (nan)
    return a == b or struct.pack('d', a) == struct.pack('d', b)


def same_value(a, b):
    if type(a) is not type(b):
        return False
    if isinstance(a, complex):
        return _same_part(a.real, b.real) and _same_part(a.imag, b.imag)
    if isinstance(a, float):
        return _same_part(a, b)
    return a == b


SPECIAL = {'d': [0.1, -0.0, float('inf'), float('-inf'), float('nan'), 5e-324, 1.7e308, 2.0 ** 40 + 0.5, 1.0 / 3.0],
           'i': [2 ** 40, -2 ** 35 - 1, 2 ** 62, -2 ** 63, 2 ** 31, -2 ** 31 - 1, 7],
           'z': [[0.1, -0.0], [float('nan'), float('inf')], [-0.0, 5e-324], [1.7e308, -1.0 / 3.0]]}


class SimStreamRI(SimStream):
    """a stream that also offers readinto(), as real files and io.BytesIO do"""

    def readinto(self, buf):
        mv = memoryview(buf).cast('B')
        chunk = self.read(len(mv))
        if not isinstance(chunk, (bytes, bytearray)):
            return chunk        # the wrong-type fault: hand it on as it is
        mv[:len(chunk)] = chunk
        return len(chunk)


# ----------------------------------------------------------------------------- world

class SM:
    """model of a sparse matrix: size, typecode and the triplet list in CCS order (explicit zeros kept)"""

    def __init__(self, tc, m, n, trip):
        self.tc, self.m, self.n = tc, m, n
        self.trip = sorted(trip, key=lambda t: (t[1], t[0]))     # (i, j, v) by column then row

    def copy(self):
        return SM(self.tc, self.m, self.n, list(self.trip))


def sm_of(spec):
    conv = MDL.conv
    return SM(spec['tc'], spec['m'], spec['n'], [(i, j, conv(DNS.lit(v), spec['tc'])) for i, j, v in zip(spec['I'], spec['J'], spec['V'])])


def same_sparse(X, M):
    from cvxopt import spmatrix
    if not isinstance(X, spmatrix) or X.size != (M.m, M.n) or X.typecode != M.tc:
        return False
    got = list(zip(list(X.I), list(X.J), list(X.V)))
    want = M.trip
    if len(got) != len(want):
        return False
    for a, b in zip(got, want):
        if a[0] != b[0] or a[1] != b[1] or a[2] != b[2] or type(a[2]) is not type(b[2]):
            return False
    return O.ccs_valid(X) is None


class World:
    def __init__(self):
        self.objs = {}     # oid -> {'M': model, 'sparse': bool}
        self.names = {}    # name -> (oid, object)
        self.views = {}    # vname -> {'mv': memoryview, 'oid': oid, 'shape': (m,n)}
        self.counter = 0
        self.oid = 0
        self.flags = set()

    def fresh(self, p='n'):
        self.counter += 1
        return '%s%d' % (p, self.counter)

    def bind(self, name, X, M):
        self.oid += 1
        self.objs[self.oid] = {'M': M, 'sparse': isinstance(M, SM)}
        self.names[name] = (self.oid, X)
        return self.oid

    def owner_names(self, oid):
        return [k for k, v in self.names.items() if v[0] == oid]

    def live(self, oid):
        return bool(self.owner_names(oid)) or any(v['oid'] == oid and not v['released'] for v in self.views.values())

    def collect(self):
        for oid in list(self.objs):
            if not self.live(oid):
                del self.objs[oid]

    def sorted_names(self, sparse=None):
        out = [k for k, v in self.names.items() if sparse is None or self.objs[v[0]]['sparse'] == sparse]
        return sorted(out, key=lambda s: int(s[1:]))


# ----------------------------------------------------------------------------- generator

def gen_op(rng, w):
    names = w.sorted_names()
    dense = w.sorted_names(sparse=False)
    if not names or (len(names) < 2 and rng.random() < 0.6) or (len(names) < 6 and rng.random() < 0.07):
        if rng.random() < 0.05:
            # now and then a matrix that does not fit one I/O block or one copy chunk (values stay small integers)
            tc_ = rng.choice(['i', 'd', 'z'])
            m_, n_ = rng.choice([(33, 32), (1025, 1), (1, 1500), (40, 30)])
            return ['new', w.fresh(), {'k': 'dense', 'm': m_, 'n': n_, 'tc': tc_, 'v': [DNS.mkval(tc_, rng) for _ in range(m_ * n_)]}]
        if rng.random() < 0.7:
            spec = DNS.gen_dense(rng)
            if rng.random() < 0.25 and spec['v']:
                # values that only survive an exact transport: nan, infinities, signed zeros, denormals, 64-bit integers
                spec = dict(spec, v=[rng.choice(SPECIAL[spec['tc']]) if rng.random() < 0.6 else x for x in spec['v']], special=True)
            return ['new', w.fresh(), spec]
        return ['new', w.fresh(), SPS.gen_sparse(rng)]
    vnames = sorted((k for k, v in w.views.items() if not v['released']), key=lambda s: int(s[1:]))
    r = rng.random()
    if r < 0.14 and dense:
        return ['export', w.fresh('v'), rng.choice(dense)]
    if r < 0.18 and vnames:
        return ['subview', w.fresh('v'), rng.choice(vnames)]
    if r < 0.27 and vnames:
        v = w.views[rng.choice(vnames)]
        vn = [k for k, x in w.views.items() if x is v][0]
        m, n = v['shape']
        tc = w.objs[v['oid']]['M'].tc
        if m * n > 0 and tc in ('i', 'd'):
            return ['write_view', vn, rng.randrange(m), rng.randrange(n), DNS.mkval(tc, rng)]
        return ['gc']
    if r < 0.36 and dense:
        t = rng.choice(dense)
        M = w.objs[w.names[t][0]]['M']
        if M.m * M.n > 0:
            return ['write_owner', t, rng.randrange(M.m * M.n), DNS.mkval(M.tc, rng)]
        return ['gc']
    if r < 0.42 and vnames:
        return ['release', rng.choice(vnames)]
    if r < 0.52:
        return ['drop', rng.choice(names)]
    if r < 0.57:
        return ['gc']
    if r < 0.63:
        return ['churn', rng.randint(1, 6)]
    if r < 0.67 and dense:
        t = rng.choice(dense)
        M = w.objs[w.names[t][0]]['M']
        tot = M.m * M.n
        shapes = [(a, tot // a) for a in range(1, tot + 1) if tot % a == 0] if tot else [(0, 2), (3, 0), (0, 0)]
        return ['resize', t, list(rng.choice(shapes))]
    if r < 0.71 and dense:
        t = rng.choice(dense)
        tc = w.objs[w.names[t][0]]['M'].tc
        M_ = w.objs[w.names[t][0]]['M']
        if rng.random() < 0.2 and M_.m * M_.n > 1 and M_.m * M_.n <= 64:
            # a matrix operand: another matrix of the same shape, or the owner itself
            if rng.random() < 0.4:
                return ['iop', t, rng.choice(['+=', '-=']), {'k': 'self'}]
            return ['iop', t, rng.choice(['+=', '-=']), DNS.gen_dense(rng, M_.m, M_.n, tc)]
        if tc != 'i' and rng.random() < 0.3:
            return ['iop', t, '/=', {'k': 'num', 'v': rng.choice([2.0, -2.0, 0.5, 4.0, -1.0])}]      # exactly invertible divisors
        if rng.random() < 0.1:
            return ['iop', t, '%=', {'k': 'num', 'v': rng.choice([2, 3, -3]) if tc == 'i' else rng.choice([2.0, 3.0, -2.0])}]
        return ['iop', t, rng.choice(['+=', '-=', '*=']), {'k': 'num', 'v': DNS.mkval('i' if tc == 'i' else tc, rng)}]
    sparse_names = w.sorted_names(sparse=True)
    if r < 0.76 and sparse_names:
        # mutation of a sparse owner: every name bound to it must see the change, no copy may
        t = rng.choice(sparse_names)
        M = w.objs[w.names[t][0]]['M']
        rr = rng.random()
        if rr < 0.45 and M.m * M.n > 0:
            return ['sp_set', t, rng.randrange(M.m), rng.randrange(M.n), DNS.mkval(M.tc, rng)]
        if rr < 0.75:
            return ['sp_iadd', t, rng.choice(['+=', '-=']), SPS.gen_sparse(rng, M.tc, M.m, M.n)]
        return ['sp_scale', t, rng.choice([2.0, -1.0, 0.5, 3.0])]
    if r < 0.85:
        t = rng.choice(names)
        how = rng.choice(['matrix', 'pos', 'slice', 'copy', 'deepcopy'] + ['pickle:%d' % k for k in range(6)] +
                         ['picklestream:%d' % k for k in (0, 2, 4, 5)])
        if how == 'slice' and rng.random() < 0.6 and not w.objs[w.names[t][0]]['sparse']:
            # a genuine sub-block: still an independent copy
            M_ = w.objs[w.names[t][0]]['M']
            return ['copy', w.fresh(), t, 'sliceidx', SPS.gen_index(rng, M_.m, for_assign=False), SPS.gen_index(rng, M_.n, for_assign=False)]
        return ['copy', w.fresh(), t, how]
    if r < 0.88:
        return ['rebind', w.fresh(), rng.choice(names)]
    if r < 0.95 and dense:
        t = rng.choice(dense)
        M = w.objs[w.names[t][0]]['M']
        total = M.m * M.n * ITEM[M.tc][1]
        f = rng.choice([None, None, ['eof', rng.randint(0, total)], ['eof', max(0, total - 1)], ['read_oserror'], ['read_str'], ['write_oserror'],
                        ['read_long'], ['read_bytearray'], ['read_none']])
        if rng.random() < 0.4:
            # write the owner out, change it, read it back into the same (possibly exported, possibly aliased) object
            return ['file', w.fresh(), t, f, 'self', rng.choice(['sim', 'readinto', 'bytesio'])]
        return ['file', w.fresh(), t, f, 'fresh', rng.choice(['sim', 'sim', 'readinto'])]
    return gen_import(rng, w)


def gen_import(rng, w):
    op = _gen_import(rng, w)
    if op[2]['k'] in ('array', 'strided', 'cast2d', 'rows2d') and rng.random() < 0.4:
        # matrix(buffer, size, tc): conversion and reshaping on import
        op[2]['args'] = {'tc': rng.choice([None, 'i', 'd', 'z', 'd', 'z']),
                         'size': rng.choice([None, None, 'col', 'row', 'bad'])}
    return op


def _gen_import(rng, w):
    kind = rng.choice(['array', 'array', 'strided', 'cast2d', 'ctypes', 'ctypes2d', 'unsupported', 'rows2d', 'rows2d'])
    nm = w.fresh()
    if kind == 'rows2d':
        # a 2-D view whose column stride is larger than its column: rows a:b:c of a dense matrix seen through memoryview
        tcx = rng.choice(['i', 'd', 'z'])
        spec = DNS.gen_dense(rng, rng.randint(1, 4), rng.randint(1, 4), tcx)
        a = rng.choice([None, 0, 1])
        b = rng.choice([None, spec['m'], max(0, spec['m'] - 1)])
        c = rng.choice([None, 1, 2])
        return ['import', nm, {'k': 'rows2d', 'src': spec, 'slice': [a, b, c], 'v': []}]
    if kind == 'array':
        tcode = rng.choice(['i', 'l', 'q', 'd'])
        k = rng.randint(0, 6)
        vals = [float(rng.randint(-3, 3)) if tcode == 'd' else rng.randint(-3, 3) for _ in range(k)]
        if rng.random() < 0.3 and tcode in ('l', 'd', 'i'):
            pool_ = SPECIAL['d'] if tcode == 'd' else ([2 ** 30, -2 ** 31, 7] if tcode == 'i' else SPECIAL['i'])
            vals = [rng.choice(pool_) if rng.random() < 0.6 else x for x in vals]
        return ['import', nm, {'k': 'array', 'tcode': tcode, 'v': vals}]
    if kind == 'strided':
        tcode = rng.choice(['l', 'd', 'q'])
        k = rng.randint(1, 8)
        vals = [float(rng.randint(-3, 3)) if tcode == 'd' else rng.randint(-3, 3) for _ in range(k)]
        return ['import', nm, {'k': 'strided', 'tcode': tcode, 'v': vals, 'slice': [rng.choice([None, 0, 1]), None, rng.choice([2, 3, -1, -2])]}]
    if kind == 'cast2d':
        tcode = rng.choice(['l', 'd'])
        r_, c_ = rng.randint(1, 3), rng.randint(1, 3)
        vals = [float(rng.randint(-3, 3)) if tcode == 'd' else rng.randint(-3, 3) for _ in range(r_ * c_)]
        return ['import', nm, {'k': 'cast2d', 'tcode': tcode, 'v': vals, 'shape': [r_, c_]}]
    if kind == 'ctypes':
        tcode = rng.choice(['l', 'd'])
        k = rng.randint(1, 5)
        vals = [float(rng.randint(-3, 3)) if tcode == 'd' else rng.randint(-3, 3) for _ in range(k)]
        return ['import', nm, {'k': 'ctypes', 'tcode': tcode, 'v': vals}]
    if kind == 'ctypes2d':
        tcode = rng.choice(['l', 'd'])
        r_, c_ = rng.randint(1, 3), rng.randint(1, 3)
        vals = [float(rng.randint(-3, 3)) if tcode == 'd' else rng.randint(-3, 3) for _ in range(r_ * c_)]
        return ['import', nm, {'k': 'ctypes2d', 'tcode': tcode, 'v': vals, 'shape': [r_, c_]}]
    k_ = rng.choice(['bytearray', 'array_f', 'array_B', 'bytes', 'cast3d', 'cast3d', 'array_L', 'array_I', 'array_h'])
    if k_ == 'cast3d':
        return ['import', nm, {'k': 'cast3d', 'tcode': rng.choice(['l', 'd']), 'v': [rng.randint(-3, 3) for _ in range(8)]}]
    return ['import', nm, {'k': k_, 'v': [rng.randint(0, 3) for _ in range(rng.randint(1, 4))]}]


# ----------------------------------------------------------------------------- execution

def view_values(mv, tc):
    """contents of a 2-D view as a column-major list (memory order of the exporter)"""
    raw = mv.tobytes()          # logical C order of the (m, n) view
    m, n = mv.shape
    fmt, sz = ITEM[tc]
    vals = []
    for k in range(m * n):
        t = struct.unpack_from(fmt, raw, k * sz)
        vals.append(complex(t[0], t[1]) if tc == 'z' else t[0])
    # row-major (i, j) -> column-major
    return [vals[i * n + j] for j in range(n) for i in range(m)]


def apply(op, w, stats, rngless=None):
    from cvxopt import matrix, spmatrix
    kind = op[0]

    def bump(k):
        stats[k] = stats.get(k, 0) + 1
    bump('op.' + kind + (':' + op[3].split(':')[0] if kind == 'copy' else ''))
    if kind == 'new':
        spec = op[2]
        if spec['k'] == 'sparse':
            w.bind(op[1], SPS.mk(spec), sm_of(spec))
        elif spec.get('special'):
            # the values that count are the ones the constructor stored (it is not the subject here; e.g. an
            # infinite imaginary part arrives with a nan real part): from now on they only travel
            X0 = SPS.mk(spec)
            w.bind(op[1], X0, MDL.MM(spec['tc'], spec['m'], spec['n'], list(X0)))
        else:
            w.bind(op[1], SPS.mk(spec), DNS.model_of(spec))
        return
    if kind == 'teardown':
        return
    if kind == 'gc':
        gc.collect()
        w.flags.add('gc')
        return
    if kind == 'churn':
        # free-list reuse: allocate and drop matrices of typical sizes, and let the quarantine go
        junk = []
        for k in range(op[1] * 4):
            junk.append(matrix(float(k + 77), ((k % 4) + 1, (k % 3) + 1)))
            junk.append(matrix(k + 77, ((k % 3) + 1, (k % 4) + 1), 'i'))
        del junk
        if SPS._vp:
            SPS._vp.vp_flush_quarantine()
        junk = [matrix(55.0, ((k % 4) + 1, (k % 4) + 1)) for k in range(op[1] * 4)]
        del junk
        w.flags.add('churn')
        return
    if kind == 'export':
        if op[2] not in w.names:
            return
        oid, X = w.names[op[2]]
        M = w.objs[oid]['M']
        gc_was = gc.isenabled()
        gc.disable()              # an automatic collection between the two readings would change the count for its own reasons
        try:
            rc0 = sys.getrefcount(X)
            mv = memoryview(X)
            rc1 = sys.getrefcount(X)
        finally:
            if gc_was:
                gc.enable()
        w.views[op[1]] = {'mv': mv, 'oid': oid, 'shape': (M.m, M.n), 'released': False, 'age': 0, 'direct': True}
        if rc1 != rc0 + 1:
            # every export must pin the exporter by one reference of its own, otherwise the buffer of the
            # view that is released last is no longer protected
            raise Mismatch('export-does-not-pin-exporter', 'memoryview(%s) changed the reference count of the matrix by %d instead of 1 '
                           '(%d other exports alive)' % (op[2], rc1 - rc0, sum(1 for v in w.views.values() if v['oid'] == oid and not v['released'] and v.get('direct')) - 1),
                           op='export')
        fmt = {'i': 'l', 'd': 'd', 'z': 'Zd'}[M.tc]
        want_strides = (ITEM[M.tc][1], ITEM[M.tc][1] * M.m)
        if mv.ndim != 2 or tuple(mv.shape) != (M.m, M.n) or mv.format != fmt or mv.readonly or mv.itemsize != ITEM[M.tc][1] or \
                (M.m * M.n > 0 and tuple(mv.strides) != want_strides):
            raise Mismatch('view-attributes', 'memoryview(%s): ndim=%r shape=%r format=%r strides=%r readonly=%r; matrix is %s %s' %
                           (op[2], mv.ndim, mv.shape, mv.format, mv.strides, mv.readonly, M.tc, (M.m, M.n)), op='export')
        return
    if kind == 'subview':
        v = w.views.get(op[2])
        if v is None or v['released']:
            return
        w.views[op[1]] = {'mv': memoryview(v['mv']), 'oid': v['oid'], 'shape': v['shape'], 'released': False, 'age': 0, 'direct': False}
        return
    if kind == 'write_view':
        v = w.views.get(op[1])
        if v is None or v['released'] or v['oid'] not in w.objs:
            return
        M = w.objs[v['oid']]['M']
        i, j, val = op[2], op[3], DNS.lit(op[4])
        m0, n0 = v['shape']
        if i >= m0 or j >= n0 or M.tc == 'z':
            return
        v['mv'][i, j] = val
        M.v[j * m0 + i] = MDL.conv(val, M.tc)
        w.flags.add('mut_while_exported')
        bump('probe.write_through_view')
        if not w.owner_names(v['oid']):
            bump('probe.write_through_view_whose_owner_has_no_name_left')
        return
    if kind == 'write_owner':
        if op[1] not in w.names:
            return
        oid, X = w.names[op[1]]
        M = w.objs[oid]['M']
        if op[2] >= len(M.v):
            return
        X[op[2]] = DNS.lit(op[3])
        M.v[op[2]] = MDL.conv(DNS.lit(op[3]), M.tc)
        if any(vv['oid'] == oid and not vv['released'] for vv in w.views.values()):
            w.flags.add('mut_while_exported')
        return
    if kind == 'release':
        v = w.views.get(op[1])
        if v is None or v['released']:
            return
        # nested views keep the exporter alive through their own reference
        owner = [X for (o, X) in w.names.values() if o == v['oid']]
        nested_alive = any(x is not v and not x['released'] and not x.get('direct') and x['oid'] == v['oid'] for x in w.views.values())
        gc_was = gc.isenabled()
        gc.disable()
        try:
            rc0 = sys.getrefcount(owner[0]) if owner else None
            v['mv'].release()
            rc1 = sys.getrefcount(owner[0]) if owner else None
        finally:
            if gc_was:
                gc.enable()
        v['released'] = True
        if owner and v.get('direct') and not nested_alive:
            if rc1 != rc0 - 1:
                raise Mismatch('release-refcount', 'releasing a direct export changed the reference count of the matrix by %d instead of -1' % (rc1 - rc0), op='release')
        w.collect()
        return
    if kind == 'drop':
        if op[1] not in w.names:
            return
        oid = w.names[op[1]][0]
        del w.names[op[1]]
        if not w.owner_names(oid) and any(vv['oid'] == oid and not vv['released'] for vv in w.views.values()):
            w.flags.add('owner_dropped_with_live_view')
            bump('probe.last_name_of_owner_dropped_while_a_view_is_live')
        w.collect()
        return
    if kind == 'resize':
        if op[1] not in w.names:
            return
        oid, X = w.names[op[1]]
        M = w.objs[oid]['M']
        sh = tuple(op[2])
        if sh[0] * sh[1] != M.m * M.n:
            return
        try:
            X.size = sh
        except TypeError:
            bump('resize_refused')       # refusing to resize an exported matrix would be legitimate for C20
            return
        M.m, M.n = sh
        return
    if kind == 'iop':
        if op[1] not in w.names:
            return
        oid, X = w.names[op[1]]
        M = w.objs[oid]['M']

        def plain(v):
            parts = (v.real, v.imag) if isinstance(v, complex) else (v,)
            return all(p_ == p_ and abs(p_) <= 1e6 and float(p_) == int(p_) for p_ in parts)
        if not all(plain(v) for v in M.v):
            return      # special values only travel; arithmetic on nan/inf/2^62 is not this engine's subject
        if op[3]['k'] == 'self':
            v, vm = X, M.copy()            # A op= A: the operand is the owner itself
        elif op[3]['k'] == 'dense':
            v, vm = SPS.mk(op[3]), DNS.model_of(op[3])
        else:
            v = vm = DNS.lit(op[3]['v'])
        try:
            MDL.inplace(M, op[2], vm)
        except MDL.Refuse:
            return
        X_before = X
        if op[2] == '+=':
            X += v
        elif op[2] == '-=':
            X -= v
        elif op[2] == '/=':
            X /= v
        elif op[2] == '%=':
            X %= v
        else:
            X *= v
        if X is not X_before:
            raise Mismatch('inplace-returned-new-object', 'A %s c on a dense matrix returned a new object' % op[2], op='iop', sparse=False)
        w.names[op[1]] = (oid, X)
        if any(vv['oid'] == oid and not vv['released'] for vv in w.views.values()):
            w.flags.add('mut_while_exported')
        return
    if kind == 'sp_iadd':
        if op[1] not in w.names:
            return
        oid, X = w.names[op[1]]
        M = w.objs[oid]['M']
        if not w.objs[oid]['sparse']:
            return
        Y = SPS.mk(op[3])
        if Y.size != X.size or Y.typecode != X.typecode:
            return
        Z = X.__iadd__(Y) if op[2] == '+=' else X.__isub__(Y)
        if Z is not X:
            raise Mismatch('inplace-returned-new-object', 'S %s T on a sparse matrix (%d stored entries) returned a new object: other names bound to S do not see the change' %
                           (op[2], len(M.trip)), op='sp_iadd', sparse=True)
        # values and pattern of the sum are C16's business; here: every alias sees them, no copy does
        M.trip = sorted(zip(list(X.I), list(X.J), list(X.V)), key=lambda t: (t[1], t[0]))
        w.flags.add('sparse_mutation')
        return
    if kind in ('sp_set', 'sp_scale'):
        if op[1] not in w.names:
            return
        oid, X = w.names[op[1]]
        M = w.objs[oid]['M']
        if not w.objs[oid]['sparse']:
            return
        if kind == 'sp_set':
            i, j, v = op[2], op[3], MDL.conv(DNS.lit(op[4]), M.tc)
            if i >= M.m or j >= M.n:
                return
            X[i, j] = v
            M.trip = sorted([t for t in M.trip if (t[0], t[1]) != (i, j)] + [(i, j, v)], key=lambda t: (t[1], t[0]))
        else:
            c = op[2]
            Z = X.__imul__(c)
            if Z is not X:
                raise Mismatch('inplace-returned-new-object', 'S *= c on a sparse matrix returned a new object', op='sp_scale', sparse=True)
            M.trip = [(i, j, v * c) for i, j, v in M.trip]
        w.names[op[1]] = (oid, X)
        w.flags.add('sparse_mutation')
        return
    if kind == 'rebind':
        if op[2] in w.names:
            w.names[op[1]] = w.names[op[2]]
        return
    if kind == 'copy':
        if op[2] not in w.names:
            return
        oid, X = w.names[op[2]]
        e = w.objs[oid]
        M = e['M']
        how = op[3]
        if how == 'matrix':
            Y = spmatrix(X.V, X.I, X.J, X.size, X.typecode) if e['sparse'] else matrix(X)
        elif how == 'pos':
            Y = +X
        elif how == 'sliceidx':
            try:
                M2x = MDL.get2(M, op[4], op[5])
            except MDL.Refuse:
                return
            if not isinstance(M2x, MDL.MM):
                return          # two integers: a number, not a matrix
            Y = X[SPS.mkidx(op[4]), SPS.mkidx(op[5])]
            SPS.check_indices()
            if not same_dense(Y, M2x):
                raise Mismatch('roundtrip-differs', 'X[I, J] does not reproduce the selected block', op='copy', how='sliceidx', sparse=False)
            if len(X) > 0 and len(Y) > 0:
                saved = list(X)
                for q_ in range(len(X)):
                    X[q_] = M.v[q_] + 1 if same_value(M.v[q_] + 1, M.v[q_]) is False else M.v[q_]
                indep = same_dense(Y, M2x)
                for q_ in range(len(X)):
                    X[q_] = saved[q_]
                if not indep:
                    raise Mismatch('copy-shares-storage', 'a change of the original is visible in a block obtained by indexing', op='copy', how='sliceidx')
            w.bind(op[1], Y, M2x)
            return
        elif how == 'slice':
            Y = X[:, :]
        elif how == 'copy':
            Y = copy.copy(X)
        elif how == 'deepcopy':
            Y = copy.deepcopy(X)
        elif how.startswith('pickle:'):
            Y = pickle.loads(pickle.dumps(X, protocol=int(how.split(':')[1])))
        else:
            bio = io.BytesIO()
            pickle.dump(X, bio, protocol=int(how.split(':')[1]))
            bio.seek(0)
            Y = pickle.load(bio)
        if Y is X:
            raise Mismatch('copy-is-alias', '%s returned the same object' % how, op='copy', how=how.split(':')[0])
        M2 = M.copy()
        ok = same_sparse(Y, M2) if e['sparse'] else same_dense(Y, M2)
        if not ok:
            raise Mismatch('roundtrip-differs', '%s of a %s %s matrix does not reproduce it (got %s %s)' %
                           (how, 'sparse' if e['sparse'] else 'dense', M.tc, getattr(Y, 'typecode', None), getattr(Y, 'size', None)),
                           op='copy', how=how.split(':')[0], sparse=e['sparse'])
        # independence probe: a change of the original must not show in the copy
        if e['sparse']:
            if len(X) > 0:
                old = X.V
                X.V = old + 1
                indep = same_sparse(Y, M2)
                X.V = old
            else:
                indep = True
        else:
            if len(X) > 0:
                old = X[0]
                X[0] = old + 1
                indep = same_dense(Y, M2)
                X[0] = old
            else:
                indep = True
        if not indep:
            raise Mismatch('copy-shares-storage', 'a change of the original is visible in its %s copy' % how, op='copy', how=how.split(':')[0])
        w.bind(op[1], Y, M2)
        return
    if kind == 'file':
        if op[2] not in w.names:
            return
        oid, X = w.names[op[2]]
        M = w.objs[oid]['M']
        fault = op[3]
        mode = op[4] if len(op) > 4 else 'fresh'
        skind = op[5] if len(op) > 5 else 'sim'
        if skind == 'bytesio':
            fault = None           # a real in-memory file: no fault to inject
        st = SimStreamRI(fault) if skind == 'readinto' else SimStream(fault)
        if mode == 'self':
            exc = None
            written = list(M.v)
            bio = io.BytesIO() if skind == 'bytesio' else None
            try:
                X.tofile(bio if bio is not None else st)
                if M.m * M.n > 0:
                    X[0] = X[0] + 1
                    M.v[0] = M.v[0] + 1
                if bio is not None:
                    bio.seek(0)
                X.fromfile(bio if bio is not None else st)
            except (OSError, EOFError, TypeError) as ex:
                exc = ex
            except Exception as ex:    # noqa
                raise Mismatch('undocumented-exception', 'tofile/fromfile raised %s(%s) under fault %r' % (type(ex).__name__, ex, fault), op='file')
            if st.fired:
                bump('fault.stream.' + fault[0])
                w.flags.add('stream_fault_fired')
            if exc is None:
                M.v[:] = written          # read back: the owner (and every alias and view of it) shows what was written
            elif not st.fired:
                raise Mismatch('unexpected-exception', 'fault-free tofile/fromfile raised %s(%s)' % (type(exc).__name__, exc), op='file')
            bump('probe.fromfile_into_existing_owner')
            if any(vv['oid'] == oid and not vv['released'] for vv in w.views.values()):
                bump('probe.fromfile_into_exported_owner')
                w.flags.add('mut_while_exported')
            return
        T = matrix([MDL.conv(9, M.tc)] * (M.m * M.n), (M.m, M.n), M.tc)      # target with known contents
        TM = MDL.MM(M.tc, M.m, M.n, [9] * (M.m * M.n))
        exc = None
        try:
            X.tofile(st)
            st.fault = fault
            T.fromfile(st)
        except (OSError, EOFError, TypeError) as ex:
            exc = ex
        except Exception as ex:    # noqa
            raise Mismatch('undocumented-exception', 'tofile/fromfile raised %s(%s) under fault %r' % (type(ex).__name__, ex, fault), op='file')
        if st.fired:
            bump('fault.stream.' + fault[0])
            w.flags.add('stream_fault_fired')
        if exc is None:
            # returned normally: the data must be exact, whatever the stream did
            if not same_dense(T, M):
                raise Mismatch('roundtrip-differs', 'tofile/fromfile returned normally but the matrix differs (fault %r fired=%s)' % (fault, st.fired),
                               op='file', fault=fault[0] if fault else None)
            w.bind(op[1], T, M.copy())
        else:
            if not st.fired:
                raise Mismatch('unexpected-exception', 'fault-free tofile/fromfile raised %s(%s)' % (type(exc).__name__, exc), op='file')
            want = {'eof': EOFError, 'read_oserror': OSError, 'read_str': TypeError, 'write_oserror': OSError,
                    'read_long': EOFError, 'read_bytearray': TypeError, 'read_none': TypeError}[fault[0]]
            if not isinstance(exc, want):
                raise Mismatch('exception-type', 'stream fault %s surfaced as %s(%s)' % (fault[0], type(exc).__name__, exc), op='file', fault=fault[0])
            if not same_dense(T, TM):
                raise Mismatch('failed-read-changed-matrix', 'fromfile raised %s but modified its matrix' % type(exc).__name__, op='file', fault=fault[0])
        return
    if kind == 'import':
        spec = op[2]
        k = spec['k']
        vals = spec['v']
        src = None
        want = None
        mutate = None
        if k == 'array':
            src = array.array(spec['tcode'], vals)
            want = MDL.MM('d' if spec['tcode'] == 'd' else 'i', len(vals), 1, vals)
            mutate = src
        elif k == 'strided':
            base = array.array(spec['tcode'], vals)
            src = memoryview(base)[slice(*spec['slice'])]
            sel = vals[slice(*spec['slice'])]
            want = MDL.MM('d' if spec['tcode'] == 'd' else 'i', len(sel), 1, sel)
            mutate = base
        elif k == 'cast2d':
            base = array.array(spec['tcode'], vals)
            r_, c_ = spec['shape']
            src = memoryview(base).cast('B').cast(spec['tcode'], shape=[r_, c_])
            want = MDL.MM('d' if spec['tcode'] == 'd' else 'i', r_, c_, [vals[i * c_ + j] for j in range(c_) for i in range(r_)])
            mutate = base
        elif k == 'ctypes':
            ct = ctypes.c_double if spec['tcode'] == 'd' else ctypes.c_long
            src = (ct * len(vals))(*vals)
            want = MDL.MM('d' if spec['tcode'] == 'd' else 'i', len(vals), 1, vals)
            mutate = src
        elif k == 'ctypes2d':
            ct = ctypes.c_double if spec['tcode'] == 'd' else ctypes.c_long
            r_, c_ = spec['shape']
            src = ((ct * c_) * r_)()
            for i in range(r_):
                for j in range(c_):
                    src[i][j] = vals[i * c_ + j]
            want = MDL.MM('d' if spec['tcode'] == 'd' else 'i', r_, c_, [vals[i * c_ + j] for j in range(c_) for i in range(r_)])
        elif k == 'rows2d':
            sspec = spec['src']
            base = SPS.mk(sspec)
            bm = DNS.model_of(sspec)
            src = memoryview(base)[slice(*spec['slice'])]
            rows = list(range(*slice(*spec['slice']).indices(sspec['m'])))
            want = MDL.MM(sspec['tc'], len(rows), sspec['n'], [bm.get(i, j) for j in range(sspec['n']) for i in rows])
        elif k == 'cast3d':
            base = array.array(spec['tcode'], [float(x) for x in vals] if spec['tcode'] == 'd' else vals)
            src = memoryview(base).cast('B').cast(spec['tcode'], shape=[2, 2, 2])      # three dimensions: must be refused
            mutate = base
        elif k in ('array_L', 'array_I', 'array_h'):
            src = array.array(k[-1], vals)       # item sizes 8, 4, 2 under formats that are not supported
            mutate = src
        elif k == 'bytearray':
            src = bytearray(vals)
        elif k == 'bytes':
            src = bytes(vals)
        elif k == 'array_f':
            src = array.array('f', [float(x) for x in vals])
        else:
            src = array.array('B', vals)
        def source_released():
            # an array that still exports a buffer cannot be resized; a memoryview with exports cannot be released
            try:
                if isinstance(src, memoryview):
                    src.release()
                b_ = mutate if isinstance(mutate, array.array) else (src if isinstance(src, array.array) else None)
                if b_ is not None:
                    b_.append(b_[0] if len(b_) else 0)
                    b_.pop()
                return True
            except BufferError:
                return False
        args = spec.get('args')
        kw = {}
        refuse = False
        if args and want is not None:
            cnt = want.m * want.n
            tcx = args['tc']
            size = {'col': (cnt, 1), 'row': (1, cnt), 'bad': (cnt + 1, 1)}.get(args['size'])
            if tcx is not None:
                kw['tc'] = tcx
            if size is not None:
                kw['size'] = size
            try:
                want = MDL.recast(want, size or want.size, tcx or want.tc)
            except MDL.Refuse:
                refuse = True
        try:
            Y = matrix(src, **kw)
        except TypeError as ex:
            if k != 'rows2d' and not source_released():
                raise Mismatch('import-keeps-source-exported', 'matrix(%s buffer) was refused (%s) but the source object is still exporting a buffer' % (k, ex),
                               op='import', src=k, refused=True)
            if refuse:
                bump('import_bad_arguments_refused')
                return
            if want is not None and (spec.get('tcode') == 'q' or k in ('ctypes', 'ctypes2d')):
                # 'q' is the same 8-byte integer as 'l' on this platform, and ctypes exports '<q' / '<d': same layouts
                # under other format strings.  Which format strings are accepted is implementation-defined:
                # refusal is fine, wrong data would not be
                bump('import_other_format_string_refused')
                return
            if want is not None:
                raise Mismatch('import-refused', 'matrix(%s buffer) raised TypeError(%s)' % (k, ex), op='import', src=k, tcode=spec.get('tcode'))
            bump('import_unsupported_refused')
            return
        except Exception as ex:     # noqa
            raise Mismatch('undocumented-exception', 'matrix(%s buffer) raised %s(%s)' % (k, type(ex).__name__, ex), op='import', src=k)
        if refuse:
            raise Mismatch('import-accepted-bad-arguments', 'matrix(%s buffer, %r) was accepted as %s %s' % (k, kw, Y.typecode, Y.size), op='import', src=k)
        if want is None:
            raise Mismatch('import-accepted-unsupported', 'matrix(%s) of an unsupported buffer format was accepted as %s %s' %
                           (k, Y.typecode, Y.size), op='import', src=k)
        if not same_dense(Y, want):
            raise Mismatch('import-differs', 'matrix(%s %s buffer) gives %s %s %r, expected %s %s %r' %
                           (k, spec.get('tcode'), Y.typecode, Y.size, list(Y)[:8], want.tc, want.size, want.v[:8]), op='import', src=k, tcode=spec.get('tcode'))
        if mutate is not None and len(mutate) > 0:
            for q in range(len(mutate)):
                mutate[q] = mutate[q] + 1
            if not same_dense(Y, want):
                raise Mismatch('import-shares-storage', 'the matrix built from a %s buffer changed when the source was mutated' % k, op='import', src=k)
        if k in ('array', 'strided', 'cast2d') and not source_released():
            raise Mismatch('import-keeps-source-exported', 'after matrix(%s buffer) the source object is still exporting a buffer' % k, op='import', src=k, refused=False)
        w.bind(op[1], Y, want)
        return
    raise ValueError(kind)


def check_world(w, opname):
    for name, (oid, X) in w.names.items():
        e = w.objs[oid]
        ok = same_sparse(X, e['M']) if e['sparse'] else same_dense(X, e['M'])
        if not ok:
            raise Mismatch('owner-differs', 'after %s: %s no longer equals the model' % (opname, name), op=opname)
    for vn, v in w.views.items():
        if v['released']:
            continue
        M = w.objs[v['oid']]['M']
        got = view_values(v['mv'], M.tc)
        if len(got) != len(M.v) or not all(same_value(a, b) for a, b in zip(got, M.v)):
            orphan = not w.owner_names(v['oid'])
            raise Mismatch('view-differs', 'after %s: memoryview %s reads %r, the storage holds %r (%s)' %
                           (opname, vn, got[:6], M.v[:6], 'owner dropped' if orphan else 'owner alive'), op=opname, orphan=orphan)
        if v['age'] >= 1 and (w.flags & {'gc', 'churn', 'mut_while_exported', 'owner_dropped_with_live_view'}):
            w.flags.add('export_outlived_event')
        v['age'] += 1


def run_ops(ops, journal, rng=None, nops=0, stats=None, alloc_mode='guard'):
    if SPS._vp:
        SPS._vp.vp_set_mode(SPS.ALLOC_MODES.get(alloc_mode, 0))
    w = World()
    log = core.Log()
    stats = stats if stats is not None else {}
    done = []
    i = 0
    violation = None
    while True:
        if rng is not None:
            if i >= nops:
                break
            op = gen_op(rng, w)
        else:
            if i >= len(ops):
                break
            op = ops[i]
            if len(op) > 1 and isinstance(op[1], str) and op[1][1:].isdigit():
                w.counter = max(w.counter, int(op[1][1:]))
        journal.log_op(i, op)
        done.append(op)
        name = op[0]
        try:
            apply(op, w, stats)
            check_world(w, name)
            nv, txt = SPS.seam_check()
            if nv:
                raise Mismatch('allocator-seam', 'after %s: %s' % (name, txt), op=name)
        except DNS.Mismatch as mm:
            sig = {'oracle': mm.oracle}
            sig.update(mm.sig)
            sig.setdefault('op', name)
            violation = {'oracle': mm.oracle, 'klass': '%s:%s' % (mm.oracle, sig['op']), 'sig': sig, 'detail': mm.detail}
            journal.end_op(i)
            break
        journal.end_op(i)
        log.add(i, name)
        stats['steps'] = stats.get('steps', 0) + 1
        i += 1
    nontrivial = bool(w.flags & {'export_outlived_event', 'stream_fault_fired'})
    for fl in sorted(w.flags):
        stats['probe.history_with_' + fl] = stats.get('probe.history_with_' + fl, 0) + 1
    # drop everything deterministically — inside the journalled region: a reference-count error made
    # earlier in the history typically kills the interpreter here
    if violation is None:
        journal.log_op(i, ['teardown'])
        done.append(['teardown'])
        w.views.clear()
        w.names.clear()
        gc.collect()
        nv, txt = SPS.seam_check()
        journal.end_op(i)
        if nv:
            violation = {'oracle': 'allocator-seam', 'klass': 'allocator-seam:teardown', 'sig': {'oracle': 'allocator-seam', 'op': 'teardown'},
                         'detail': 'after teardown: %s' % txt}
    else:
        w.views.clear()
        w.names.clear()
    return violation, done, log.digest(), nontrivial


def crash_sig(case, inflight):
    ops = case.get('ops') or []
    if inflight is not None and inflight < len(ops):
        return {'op': ops[inflight][0]}
    return {}


def execute(case, journal):
    warmup()
    v, done, dig, nt = run_ops(case['ops'], journal, alloc_mode=case.get('alloc_mode', 'guard'))
    return {'violation': v, 'digest': dig, 'stats': {}}


def run_unit(seed, tier, r, journal):
    warmup()
    rng = random.Random(seed)
    res = {'evaluations': 0, 'nontrivial_digests': [], 'stats': {}, 'violations': [], 'samples': [], 'digest': None}
    ulog = core.Log()
    for k in range(HIST_PER_UNIT):
        mode = rng.choice(['guard', 'guard', 'efence_end', 'efence_start']) if SPS._vp else 'guard'
        journal.begin_case({'ops': [], 'alloc_mode': mode})
        v, done, dig, nt = run_ops(None, journal, rng=rng, nops=rng.randint(5, 25), stats=res['stats'], alloc_mode=mode)
        journal.end_case()
        res['evaluations'] += 1
        ulog.add(k, dig)
        if nt:
            res['nontrivial_digests'].append(core.sha(done))
        if v is not None:
            res['violations'].append({'case': {'ops': done, 'alloc_mode': mode}, 'violation': v})
            # the interpreter's state is suspect after a violation (reference counts, heap): report now instead
            # of dying in a later, innocent history — unless it is a listed known finding (a refusal)
            if not core.match_known(core.load_known(PROPERTY), v['sig']):
                break
        if k == 0 and r % 16 == 0:
            res['samples'].append({'ops': done[:14], 'total_ops': len(done), 'alloc_mode': mode})
    res['digest'] = ulog.digest()
    return res


def shrink(case, still_fails):
    small = core.ddmin(case['ops'], lambda sub: bool(sub) and still_fails(dict(case, ops=sub)), budget=150)
    return dict(case, ops=small) if small else case
