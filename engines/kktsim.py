"""kktsim — C07: KKT solvers and Nesterov-Todd scalings (DESIGN 5.C07).

(a) each KKT factory (kkt_ldl, kkt_ldl2, kkt_chol, kkt_chol2, kkt_qr) is driven as a server with
    state through a seeded history of factor / solve / failing-factor operations; after every
    solve the residual of the documented block system is recomputed in plain Python.
(b) whole conelp/coneqp/cpl/cp solves run with a monitor at the kktsolver seam which checks every
    scaling W the solver hands out (also the W that cpl restores after an injected failure).
"""
import io
import math
import random
import sys
import contextlib

from simkit import core, gen, faults
from simkit import cone_ref as CR
from simkit import oracles as O

NAME = 'kktsim'
PROPERTY = 'C07'
LEVEL = 'exploration'
RULE = ('evaluation = one factory history (3-10 operations: factor(W_i[,H_i,Df_i]) with W built from its definition, solves with '
        'random right-hand sides, failing factorisations - really singular data or an injected LAPACK/CHOLMOD fault at an enumerated '
        'inner call - and a second factory on the same G, A) or one monitored whole solve (every W handed to the KKT solver checked, '
        'with or without injected KKT faults). non-trivial = history with >= 2 factorisations on one factory, or monitored solve with '
        '>= 3 kktsolver calls; distinct = distinct digest of (data, operations, faults).')
SIM_TIME_NOTE = 'no clock; sim_steps = factor/solve operations applied to factories + kktsolver calls monitored'
STUBS = ['ArithmeticError raised by the LAPACK/CHOLMOD proxy in place of a failing routine',
         'scalings W generated from the documented definition (not by compute_scaling) in histories',
         'monitoring kktsolver wrapper around the real factories']
ASSUMPTIONS = ['simkit/cone_ref.py (pure-Python cone algebra, self-tested on hand-computed cases) is right',
               'bounds: block-system residual <= 1e-8 relative to |K||u|+|b| (cond(W) <= ~1e3 in histories), invariants <= 1e-9 relative to operand norms; observed ~1e-15',
               'kkt_chol2 with S = GG\'W^-2GG + H singular only by rank (F10 class) is generated at low weight and listed as known finding']
TIERS = {'quick': {'units': 240, 'wall_cap': 80.0, 'unit_timeout': 300.0},
         'thorough': {'units': 6000, 'wall_cap': 1100.0, 'unit_timeout': 600.0}}
HIST_PER_UNIT = 8
SOLVES_PER_UNIT = 3
RES_BOUND = 1e-8
INV_BOUND = 1e-9
SOLVERS = ['ldl', 'ldl2', 'chol', 'chol2', 'qr']


def warmup():
    import cvxopt
    from cvxopt import solvers, misc, cvxprog, coneprog, cholmod, lapack, blas  # noqa
    solvers.options['show_progress'] = False


# ----------------------------------------------------------------------------- scalings from the definition

def gauss_jordan_inv(A):
    n = len(A)
    M = [list(A[i]) + [1.0 if i == j else 0.0 for j in range(n)] for i in range(n)]
    for c in range(n):
        piv = max(range(c, n), key=lambda r: abs(M[r][c]))
        M[c], M[piv] = M[piv], M[c]
        d = M[c][c]
        M[c] = [v / d for v in M[c]]
        for r in range(n):
            if r != c and M[r][c] != 0.0:
                f = M[r][c]
                M[r] = [a - f * b for a, b in zip(M[r], M[c])]
    return [row[n:] for row in M]


def gen_W(rng, dims, mnl=0):
    """explicit scaling data (lists) with the documented invariants by construction"""
    W = {}
    if mnl:
        W['dnl'] = [round(rng.uniform(0.2, 5.0), 6) for _ in range(mnl)]
    W['d'] = [round(rng.uniform(0.2, 5.0), 6) for _ in range(dims['l'])]
    W['beta'] = [round(rng.uniform(0.3, 3.0), 6) for _ in dims['q']]
    W['v'] = []
    for m in dims['q']:
        t = rng.uniform(-1.0, 1.0)
        u = [rng.uniform(-1, 1) for _ in range(m - 1)]
        nu = math.sqrt(sum(a * a for a in u)) or 1.0
        W['v'].append([math.cosh(t)] + [math.sinh(t) * a / nu for a in u] if m > 1 else [1.0])
    W['r'] = []
    for m in dims['s']:
        R = [[(1.0 if i == j else 0.0) + rng.uniform(-0.35, 0.35) for j in range(m)] for i in range(m)]
        s = rng.uniform(0.4, 2.5)
        W['r'].append([[round(v * s, 6) for v in row] for row in R])
    return W


def W_cvx(Wd):
    """plain data -> the dictionary the factories expect"""
    from cvxopt import matrix
    W = {}
    if 'dnl' in Wd:
        W['dnl'] = matrix(Wd['dnl'], (len(Wd['dnl']), 1), 'd')
        W['dnli'] = matrix([1.0 / v for v in Wd['dnl']], (len(Wd['dnl']), 1), 'd')
    W['d'] = matrix(Wd['d'], (len(Wd['d']), 1), 'd')
    W['di'] = matrix([1.0 / v for v in Wd['d']], (len(Wd['d']), 1), 'd')
    W['beta'] = list(Wd['beta'])
    W['v'] = [matrix(v, (len(v), 1), 'd') for v in Wd['v']]
    W['r'] = []
    W['rti'] = []
    for R in Wd['r']:
        m = len(R)
        W['r'].append(matrix([R[i][j] for j in range(m) for i in range(m)], (m, m), 'd'))
        Ri = gauss_jordan_inv(R)
        # rti = inverse transpose:  rti[i][j] = Ri[j][i]
        W['rti'].append(matrix([Ri[i][j] for i in range(m) for j in range(m)], (m, m), 'd'))
    return W


# ----------------------------------------------------------------------------- the block-system oracle

def block_residual(data, Wl, H, Df, b3, u3):
    """relative residual of [H A' GG'; A 0 0; GG 0 -W'W](ux,uy,uz) = (bx,by,bz) with z_out = W uz.
    All arguments plain lists / (m,n,colmajor) triples.  'W uz' -> uz = W^{-1} z_out."""
    dims, mnl = data['dims'], data['mnl']
    n, p = data['n'], data['p']
    G, A = data['Gd'], data['Ad']
    bx, by, bz = b3
    ux, uy, zo = u3
    uz = CR.scale(zo, Wl, trans='N', inverse='I')          # W^{-1} z_out   (symmetric 's' blocks)
    wtz = CR.scale(zo, Wl, trans='T', inverse='N')          # W^T z_out = W'W uz
    # GG = [Df; G]
    uz_nl, uz_l = uz[:mnl], uz[mnl:]
    r1 = [-v for v in bx]
    if H is not None:
        hx = CR.matvec(H, ux)
        r1 = [a + c for a, c in zip(r1, hx)]
    aty = CR.matvec_t(A, uy)
    gtz = CR.sgemv_t(G, uz_l, dims) if G[0] else [0.0] * n
    r1 = [a + c + d for a, c, d in zip(r1, aty, gtz)]
    if mnl:
        dtz = CR.matvec_t(Df, uz_nl)
        r1 = [a + c for a, c in zip(r1, dtz)]
    r2 = [a - c for a, c in zip(CR.matvec(A, ux), by)]
    gx = (CR.matvec(Df, ux) if mnl else []) + (CR.matvec(G, ux) if G[0] else [])
    r3 = [a - c - d for a, c, d in zip(gx, wtz, bz)]
    nr = math.sqrt(CR.nrm2(r1) ** 2 + CR.nrm2(r2) ** 2 + CR.snrm2(r3, dims, mnl) ** 2)
    nK = math.sqrt((CR.nrm2(H[2]) ** 2 if H is not None else 0.0) + 2 * CR.nrm2(A[2]) ** 2 + 2 * CR.nrm2(G[2]) ** 2 +
                   (2 * CR.nrm2(Df[2]) ** 2 if mnl else 0.0))
    nu = math.sqrt(CR.nrm2(ux) ** 2 + CR.nrm2(uy) ** 2 + CR.snrm2(uz, dims, mnl) ** 2)
    nb = math.sqrt(CR.nrm2(bx) ** 2 + CR.nrm2(by) ** 2 + CR.snrm2(bz, dims, mnl) ** 2)
    nw = CR.snrm2(wtz, dims, mnl)
    return nr / max(nK * nu + nb + nw, 1e-300)


# ----------------------------------------------------------------------------- factory histories (a)

def accepts(solver, dims, mnl, H):
    if solver == 'qr':
        return mnl == 0 and H is None
    if solver == 'chol2':
        return not (dims['q'] or dims['s'])
    return True


def gen_history(rng):
    solver = rng.choice(SOLVERS)
    if solver == 'chol2':
        dims = {'l': rng.randint(1, 8), 'q': [], 's': []}
    else:
        dims = gen.gen_dims(rng, max_rows=12)
        if rng.random() < 0.12:
            # a semidefinite block of order zero: legal, contributes nothing
            dims['s'] = list(dims['s'])
            dims['s'].insert(rng.randrange(len(dims['s']) + 1), 0)
    pk = gen.packed_dim(dims)
    mnl = rng.choice([0, 0, 1, 2]) if solver != 'qr' else 0
    n = rng.randint(1, max(1, min(5, pk)))
    if solver == 'chol2' and dims['l'] < n + 1:
        dims['l'] = n + 1 + rng.randint(0, 2)
    p = rng.randint(0, max(0, min(2, n - 1)))
    data_class = 'regular'
    if solver == 'chol2' and n >= 2 and rng.random() < 0.08:
        # F10 class: S = G'W^-2G singular by rank only (ml < n, the equalities supply the rest); low weight
        data_class = 'rank_singular'
        ml = rng.randint(1, n - 1)
        dims = {'l': ml, 'q': [], 's': []}
        p = n - ml
        mnl = 0
    if solver == 'chol2' and n >= 2 and data_class == 'regular' and rng.random() < 0.05:
        # F10b class: ml >= n but two columns of G are proportional; an equality constraint restores rank([G;A]) = n
        data_class = 'dependent_columns'
        p = max(p, 1)
        mnl = 0
    cd = CR.cdim(dims)
    zero_col = None
    use_H = solver != 'qr' and (mnl > 0 or rng.random() < 0.5) and data_class == 'regular'
    G = gen.sym_columns(rng, dims, n, rng.choice([1.0, 1.0, 0.7]))
    A = gen.rmat(rng, p, n)
    if data_class == 'dependent_columns':
        for i in range(cd):
            G[cd + i] = -2.0 * G[i]
    if use_H and rng.random() < 0.35 and solver in ('chol2', 'ldl', 'ldl2'):
        # column j of [G; A] (and later of Df) is exactly zero: the system is singular unless H[j,j] > 0
        zero_col = rng.randrange(n)
        for i in range(cd):
            G[zero_col * cd + i] = 0.0
        for i in range(p):
            A[zero_col * p + i] = 0.0
    # positions the solvers actually read: 'l' and 'q' rows and the lower triangles of the 's' blocks
    ref_rows = [off + i for kind_, off, m_ in CR.blocks(dims) if kind_ != 's' for i in range(m_)] + \
               [off + jj * m_ + ii for kind_, off, m_ in CR.blocks(dims) if kind_ == 's' for jj in range(m_) for ii in range(jj, m_)]
    diag_rows = [off + i for kind_, off, m_ in CR.blocks(dims) if kind_ != 's' for i in range(m_)] + \
                [off + jj * m_ + jj for kind_, off, m_ in CR.blocks(dims) if kind_ == 's' for jj in range(m_)]
    for j in range(n):
        if j != zero_col and not any(G[j * cd + i] for i in ref_rows):
            G[j * cd + rng.choice(diag_rows)] = 1.0       # a diagonal / vector entry keeps the 's' blocks symmetric
    # the property quantifies over (G, A, P) that satisfy the rank assumptions: Rank(A) = p and
    # Rank([G; A]) = n (the zero-column class: on the other columns; H supplies the rest), with a
    # margin so that the residual bound is meaningful.  Random sparse data violate this now and then.
    for attempt in range(40):
        ok = True
        if data_class in ('regular', 'rank_singular', 'dependent_columns'):
            keep = [j for j in range(n) if j != zero_col]
            rows = [[G[j * cd + i] for j in keep] for i in ref_rows] + [[A[j * p + i] for j in keep] for i in range(p)]
            rk, ratio = CR.numeric_rank(rows)
            rka, ratio_a = CR.numeric_rank([[A[j * p + i] for j in range(n)] for i in range(p)]) if p else (0, 1.0)
            ok = rk == len(keep) and ratio > 0.02 and rka == p and (p == 0 or ratio_a > 0.02)
            if ok and solver == 'chol2' and data_class == 'regular':
                # chol2 factors S = GG'W^-2 GG + H itself: G alone must have full column rank on those columns
                rkg, ratio_g = CR.numeric_rank([[G[j * cd + i] for j in keep] for i in ref_rows])
                ok = rkg == len(keep) and ratio_g > 0.02
        if ok:
            break
        G = gen.sym_columns(rng, dims, n, 1.0)
        A = gen.rmat(rng, p, n)
        if data_class == 'dependent_columns':
            for i in range(cd):
                G[cd + i] = -2.0 * G[i]
        if zero_col is not None:
            for i in range(cd):
                G[zero_col * cd + i] = 0.0
            for i in range(p):
                A[zero_col * p + i] = 0.0
    data = {'solver': solver, 'dims': dims, 'mnl': mnl, 'n': n, 'p': p, 'zero_col': zero_col, 'use_H': use_H, 'data_class': data_class,
            'G': {'m': cd, 'n': n, 'v': G, 'sparse': bool(rng.random() < 0.4)},
            'A': {'m': p, 'n': n, 'v': A, 'sparse': bool(rng.random() < 0.35)},
            'H_sparse': bool(rng.random() < 0.3), 'Df_sparse': bool(rng.random() < 0.3)}
    if solver == 'chol2' and rng.random() < 0.5:
        data['G']['sparse'] = data['A']['sparse'] = data['H_sparse'] = data['Df_sparse'] = True    # CHOLMOD branch
    ups = upper_positions(dims)
    if ups and rng.random() < 0.5:
        # the strictly upper triangles of the 's' blocks of the columns of G are never referenced: the factories
        # get zeros (lower-triangular storage) or junk there, the reference keeps the symmetric matrix
        mode_ = rng.choice(['zero', 'junk'])
        data['G_upper'] = [0.0 if mode_ == 'zero' else round(rng.uniform(-9, 9), 3) for _ in range(n * len(ups))]
    ops = []

    def gen_factor(singular=False):
        op = {'op': 'factor', 'W': gen_W(rng, dims, mnl)}
        if use_H:
            k = rng.randint(1, n)
            B = gen.rmat(rng, k, n)
            if data['H_sparse'] and rng.random() < 0.7:
                # H = sum of b b' with b supported on a random subset of the variables: positive semidefinite with a
                # sparsity pattern that differs from one factorisation to the next (as the Hessian of a user's F may)
                for t in range(k):
                    keep = set(rng.sample(range(n), rng.randint(1, n)))
                    for j in range(n):
                        if j not in keep:
                            B[j * k + t] = 0.0
            Hm = [[sum(B[i * k + t] * B[j * k + t] for t in range(k)) for j in range(n)] for i in range(n)]
            if zero_col is not None:
                for i in range(n):
                    Hm[i][zero_col] = Hm[zero_col][i] = 0.0
                Hm[zero_col][zero_col] = 0.0 if singular else round(rng.uniform(0.5, 2.0), 6)
            elif singular:
                Hm = [[0.0] * n for _ in range(n)]
            op['H'] = [round(Hm[i][j], 6) for j in range(n) for i in range(n)]
            for i in range(n):
                for j in range(i):
                    op['H'][j * n + i] = op['H'][i * n + j]
            # only the lower triangle of H is documented to be referenced: hand over a full symmetric
            # matrix, a lower-triangular one, or one with junk above the diagonal
            st = rng.choice(['full', 'full', 'lower', 'junk'])
            if st != 'full':
                op['H_upper'] = [0.0 if st == 'lower' else round(rng.uniform(-9, 9), 3) for _ in range(n * (n - 1) // 2)]
        if mnl:
            Df = gen.rmat(rng, mnl, n)
            if data['Df_sparse'] and rng.random() < 0.7:
                # a sparse Jacobian whose pattern changes between calls (an all-zero row is a gradient that vanishes)
                for idx in range(len(Df)):
                    if rng.random() < 0.45:
                        Df[idx] = 0.0
                if rng.random() < 0.2:
                    for j in range(n):
                        Df[j * mnl] = 0.0
            if zero_col is not None:
                for i in range(mnl):
                    Df[zero_col * mnl + i] = 0.0
            op['Df'] = Df
        return op

    nops = rng.randint(3, 10)
    r0 = rng.random()
    if r0 < 0.2 and zero_col is not None:
        f = gen_factor(singular=True)       # the very first factorisation fails for real
        f['op'] = 'factor_singular'
        ops.append(f)
        ops.append(gen_factor())
    elif r0 < 0.35:
        f = gen_factor()                    # the very first factorisation hits an injected fault
        f['op'] = 'factor_injected'
        f['fault'] = [rng.randint(1, 6), rng.choice(['before', 'after'])]
        ops.append(f)
        ops.append(gen_factor())
    else:
        ops.append(gen_factor())
    for _ in range(nops):
        r = rng.random()
        if r < 0.45:
            ops.append({'op': 'solve', 'b': [gen.rvec(rng, n), gen.rvec(rng, p), sym_rhs(rng, dims, mnl)]})
        elif r < 0.70:
            ops.append(gen_factor())
        elif r < 0.80 and zero_col is not None:
            f = gen_factor(singular=True)
            f['op'] = 'factor_singular'
            ops.append(f)
        elif r < 0.93:
            f = gen_factor()
            f['op'] = 'factor_injected'
            f['fault'] = [rng.randint(1, 6), rng.choice(['before', 'after'])]
            ops.append(f)
        else:
            f = gen_factor()
            f['op'] = 'factor_other'      # a second factory on the same G, A objects
            ops.append(f)
            ops.append({'op': 'solve_other', 'b': [gen.rvec(rng, n), gen.rvec(rng, p), sym_rhs(rng, dims, mnl)]})
    ops.append({'op': 'solve', 'b': [gen.rvec(rng, n), gen.rvec(rng, p), sym_rhs(rng, dims, mnl)]})
    nup = len(upper_positions(dims, mnl))
    if nup:
        for o_ in ops:
            if o_['op'] in ('solve', 'solve_other') and rng.random() < 0.5:
                o_['bz_upper'] = [round(rng.uniform(-9, 9), 3) for _ in range(nup)]
    return {'type': 'history', 'data': data, 'ops': ops}


def upper_positions(dims, mnl=0):
    """indices, within a cone vector, of the strictly upper triangles of the 's' blocks (never referenced)"""
    return [mnl + off + jj * m_ + ii for kind_, off, m_ in CR.blocks(dims) if kind_ == 's' for jj in range(m_) for ii in range(jj)]


def sym_rhs(rng, dims, mnl):
    x = gen.rvec(rng, mnl + dims['l'] + sum(dims['q']))
    for m in dims['s']:
        S = [[0.0] * m for _ in range(m)]
        for a in range(m):
            for b in range(a + 1):
                S[a][b] = S[b][a] = round(rng.uniform(-1, 1), 6)
        for b in range(m):
            for a in range(m):
                x.append(S[a][b])
    return x


def h_as_given(op, n):
    """the values of H as the caller stores them (model: the symmetric matrix op['H'])"""
    v = list(op['H'])
    up = op.get('H_upper')
    if up is not None:
        k = 0
        for j in range(n):
            for i in range(j):
                v[j * n + i] = up[k]
                k += 1
    return v


def make_factory(misc, data, G, A):
    s = data['solver']
    f = getattr(misc, 'kkt_' + s)
    if s == 'qr':
        return f(G, data['dims'], A)
    return f(G, data['dims'], A, data['mnl'])


def run_history(case, journal):
    from cvxopt import matrix, misc, sparse
    data, ops = case['data'], case['ops']
    dims, mnl, n, p = data['dims'], data['mnl'], data['n'], data['p']
    log = core.Log()
    stats = {}

    def bump(k, c=1):
        stats[k] = stats.get(k, 0) + c

    def V(oracle, detail, **sig):
        s = {'oracle': oracle, 'solver': data['solver'], 'zero_col': data['zero_col'] is not None,
             'data_class': data.get('data_class', 'regular')}
        s.update(sig)
        return {'oracle': oracle, 'klass': '%s:%s:%s' % (oracle, data['solver'], data.get('data_class', 'regular')), 'sig': s, 'detail': detail}

    Gspec = data['G']
    if data.get('G_upper'):
        gv, cd_ = list(Gspec['v']), Gspec['m']
        ups_ = upper_positions(dims)
        for j_ in range(n):
            for k_, pos_ in enumerate(ups_):
                gv[j_ * cd_ + pos_] = data['G_upper'][j_ * len(ups_) + k_]
        Gspec = dict(Gspec, v=gv)
    G, A = gen.M(Gspec), gen.M(data['A'])
    data = dict(data, Gd=(data['G']['m'], n, data['G']['v']), Ad=(p, n, data['A']['v']))
    lseam = faults.LapackSeam({})
    lseam.install(misc)
    try:
        factory = make_factory(misc, data, G, A)
        other = None
        cur = None          # (solve closure, W cvx, Wl lists, H triple, Df triple, H cvx, Df cvx)
        cur_other = None
        pending_after_failure = False
        nfact = 0
        img0 = O.image([G, A])
        for i, op in enumerate(ops):
            journal.begin_op(i)
            kind = op['op']
            if kind.startswith('factor'):
                W = W_cvx(op['W'])
                Wl = CR.w_lists(W)
                Hc = Dc = None
                Ht = Dt = None
                if 'H' in op:
                    Hc = matrix(h_as_given(op, n), (n, n), 'd')
                    if data['H_sparse']:
                        Hc = sparse(Hc)
                    Ht = (n, n, op['H'])
                if 'Df' in op:
                    Dc = matrix(op['Df'], (mnl, n), 'd')
                    if data['Df_sparse']:
                        Dc = sparse(Dc)
                    Dt = (mnl, n, op['Df'])
                args = [W]
                if data['solver'] != 'qr':
                    args += [Hc, Dc]
                imgW = O.image([W, Hc, Dc])
                target = factory
                if kind == 'factor_other':
                    if other is None:
                        other = make_factory(misc, data, G, A)
                    target = other
                if kind == 'factor_injected':
                    # count the inner LAPACK/CHOLMOD calls of this factorisation on a throw-away factory,
                    # so that the seeded ordinal always designates a call that exists
                    lseam.plan = {}
                    lseam.n = 0
                    lseam.armed = True
                    try:
                        make_factory(misc, data, G, A)(*args)
                    except ArithmeticError:
                        pass
                    lseam.armed = False
                    ninner = max(lseam.n, 1)
                    lseam.plan = {1 + (op['fault'][0] - 1) % ninner: op['fault'][1]}
                    lseam.n = 0
                    lseam.armed = True
                nf0 = len(lseam.fired)
                try:
                    f = target(*args)
                    failed = False
                except ArithmeticError:
                    f, failed = None, True
                finally:
                    lseam.armed = False
                    lseam.plan = {}
                fired = len(lseam.fired) > nf0
                log.add(kind, failed, fired)
                bump('steps')
                if O.image([W, Hc, Dc]) != imgW:
                    return {'violation': V('inputs-modified', 'factor() modified W, H or Df (op %d)' % i), 'digest': log.digest(), 'stats': stats}
                if kind == 'factor_injected':
                    if fired:
                        bump('fault.lapack_in_factor.' + ('raised' if failed else 'absorbed'))
                    if failed or fired:
                        cur = None if failed else (f, W, Wl, Ht, Dt)
                        pending_after_failure = True
                        if failed:
                            journal.end_op(i)
                            continue
                    else:
                        bump('injected_fault_did_not_fire')
                elif kind == 'factor_singular':
                    bump('fault.real_singular_factor.' + ('raised' if failed else 'not_detected'))
                    cur = None           # whatever it returned is not a contract-bound solve routine
                    pending_after_failure = True
                    journal.end_op(i)
                    continue
                elif failed:
                    # a well-posed factorisation raised
                    return {'violation': V('factor-raised', 'factor() raised ArithmeticError on well-conditioned nonsingular data (op %d%s)' %
                                           (i, ', first call after a failed factorisation' if pending_after_failure else ''),
                                           after_failure=pending_after_failure), 'digest': log.digest(), 'stats': stats}
                if kind == 'factor_other':
                    cur_other = (f, W, Wl, Ht, Dt)
                else:
                    cur = (f, W, Wl, Ht, Dt)
                    nfact += 1
            else:
                which = cur_other if kind == 'solve_other' else cur
                if which is None:
                    journal.end_op(i)
                    continue
                f, W, Wl, Ht, Dt = which
                bx, by, bz = op['b']
                bz_given = list(bz)
                if op.get('bz_upper'):
                    for k_, pos_ in enumerate(upper_positions(dims, mnl)):
                        bz_given[pos_] = op['bz_upper'][k_]
                x, y, z = gen.V(bx), gen.V(by), gen.V(bz_given)
                imgW = O.image(W)
                try:
                    f(x, y, z)
                except ArithmeticError as e:
                    return {'violation': V('solve-raised', 'solve raised ArithmeticError on nonsingular data (op %d): %s' % (i, e),
                                           after_failure=pending_after_failure), 'digest': log.digest(), 'stats': stats}
                bump('steps')
                res = block_residual(data, Wl, Ht, Dt, (bx, by, bz), (list(x), list(y), list(z)))
                log.add('solve', '%.3e' % res)
                if res > stats.get('max.block_residual', 0.0):
                    stats['max.block_residual'] = res
                if not (res <= RES_BOUND):
                    return {'violation': V('kkt-residual', 'relative residual %.3e of the documented block system after solve (op %d, %s%s)' %
                                           (res, i, data['solver'], ', first factorisation after a failed one' if pending_after_failure else ''),
                                           after_failure=pending_after_failure), 'digest': log.digest(), 'stats': stats}
                if pending_after_failure and kind == 'solve':
                    bump('probe.solve_checked_after_failed_factorisation')
                    pending_after_failure = False
                if O.image(W) != imgW:
                    return {'violation': V('inputs-modified', 'solve() modified W (op %d)' % i), 'digest': log.digest(), 'stats': stats}
            if O.image([G, A]) != img0:
                return {'violation': V('inputs-modified', 'G or A modified by operation %d (%s)' % (i, kind)), 'digest': log.digest(), 'stats': stats}
            journal.end_op(i)
        # ---- all applicable solvers agree on the last system
        if cur is not None:
            f, W, Wl, Ht, Dt = cur
            last = [o for o in ops if o['op'] == 'solve'][-1]['b']
            lastf = [o for o in ops if o['op'].startswith('factor') and o['op'] != 'factor_other'][-1]
            if lastf['op'] in ('factor', 'factor_injected'):
                sols = {}
                for s in SOLVERS:
                    if not accepts(s, dims, mnl, Ht):
                        continue
                    if s == 'chol2' and data['solver'] != 'chol2':
                        continue        # keep the F10 class (rank-singular S) out of the agreement check
                    d2 = dict(data, solver=s)
                    try:
                        fac = make_factory(misc, d2, G, A)
                        Hc = matrix(h_as_given(lastf, n), (n, n), 'd') if 'H' in lastf else None
                        Dc = matrix(lastf['Df'], (mnl, n), 'd') if 'Df' in lastf else None
                        g = fac(W) if s == 'qr' else fac(W, Hc, Dc)
                        x, y, z = gen.V(last[0]), gen.V(last[1]), gen.V(last[2])
                        g(x, y, z)
                        sols[s] = list(x) + list(y) + lower_only(list(z), dims, mnl)
                    except ArithmeticError:
                        if data['zero_col'] is None:
                            return {'violation': V('agreement-raised', 'solver %s raised on data that %s solved' % (s, data['solver']), other=s),
                                    'digest': log.digest(), 'stats': stats}
                ref = sols.get(data['solver'])
                for s, v in sols.items():
                    if ref is None:
                        break
                    den = max(CR.nrm2(ref), 1e-300)
                    diff = CR.nrm2([a - b for a, b in zip(ref, v)]) / den
                    if diff > stats.get('max.solver_disagreement', 0.0):
                        stats['max.solver_disagreement'] = diff
                    if diff > 1e-7:
                        return {'violation': V('solvers-disagree', '%s and %s differ by %.3e relative on the same system' % (data['solver'], s, diff), other=s),
                                'digest': log.digest(), 'stats': stats}
                bump('probe.five_solver_agreement_checks', len(sols))
    finally:
        lseam.uninstall()
    stats['_nfact'] = nfact
    return {'violation': None, 'digest': log.digest(), 'stats': stats}


def lower_only(z, dims, mnl):
    out = list(z)
    for kind, off, m in CR.blocks(dims, mnl):
        if kind == 's':
            for j in range(m):
                for i in range(j):
                    out[off + j * m + i] = 0.0
    return out


# ----------------------------------------------------------------------------- monitored whole solves (b)

def w_invariants(Wc, where):
    """list of (name, value) of invariant residuals of one scaling dictionary, each relative to
    the norms of the factors that enter it"""
    W = CR.w_lists(Wc)
    out = []
    bad = []
    for key, inv in (('d', 'di'), ('dnl', 'dnli')):
        if key in W:
            for a, b in zip(W[key], W[inv]):
                if not a > 0.0:
                    bad.append('%s has a non-positive entry %r' % (key, a))
                out.append((key + '*' + inv + '-1', abs(a * b - 1.0)))
    for k, v in enumerate(W['v']):
        if not W['beta'][k] > 0.0:
            bad.append('beta[%d] = %r' % (k, W['beta'][k]))
        if not v[0] > 0.0:
            bad.append('v[%d][0] = %r' % (k, v[0]))
        jv = v[0] * v[0] - sum(t * t for t in v[1:])
        out.append(("v'Jv-1", abs(jv - 1.0) / max(sum(t * t for t in v), 1.0)))
    for k, r in enumerate(W['r']):
        m = len(r)
        rti = W['rti'][k]
        # rti' r = I
        P = [[sum(rti[t][i] * r[t][j] for t in range(m)) for j in range(m)] for i in range(m)]
        nr = math.sqrt(sum(v * v for row in r for v in row))
        nrt = math.sqrt(sum(v * v for row in rti for v in row))
        e = math.sqrt(sum((P[i][j] - (1.0 if i == j else 0.0)) ** 2 for i in range(m) for j in range(m)))
        out.append(("rti'r-I", e / max(nr * nrt, 1e-300) if m else 0.0))
    return out, bad


def lambda_relation(Wc, s, z, lmbda, dims, mnl):
    """|| W z - lambda || and || W^{-T} s - lambda || per block, relative to operand norms"""
    W = CR.w_lists(Wc)
    out = []
    wz = CR.scale(z, W, trans='N', inverse='N')
    wts = CR.scale(s, W, trans='T', inverse='I')
    il = 0
    for kind, off, m in CR.blocks(dims, mnl):
        if kind == 'l':
            dd = (W.get('dnl', []) if mnl else []) + W['d']
            for i in range(m):
                lam = lmbda[il + i]
                out.append(('Wz-lambda(l)', abs(wz[off + i] - lam) / max(abs(dd[i]) * abs(z[off + i]), abs(lam), 1e-300)))
                out.append(('W^-Ts-lambda(l)', abs(wts[off + i] - lam) / max(abs(s[off + i] / dd[i]), abs(lam), 1e-300)))
            il += m
        elif kind == 'q':
            lam = lmbda[il:il + m]
            k = [q for q, (kk, o, mm) in enumerate([b for b in CR.blocks(dims, mnl) if b[0] == 'q']) if o == off][0]
            nv = sum(t * t for t in W['v'][k])
            beta = W['beta'][k]
            e1 = CR.nrm2([a - b for a, b in zip(wz[off:off + m], lam)])
            e2 = CR.nrm2([a - b for a, b in zip(wts[off:off + m], lam)])
            out.append(('Wz-lambda(q)', e1 / max(beta * 2 * nv * CR.nrm2(z[off:off + m]), 1e-300)))
            out.append(('W^-Ts-lambda(q)', e2 / max(2 * nv * CR.nrm2(s[off:off + m]) / beta, 1e-300)))
            il += m
        else:
            lam = lmbda[il:il + m]
            k = [q for q, (kk, o, mm) in enumerate([b for b in CR.blocks(dims, mnl) if b[0] == 's']) if o == off][0]
            r, rti = W['r'][k], W['rti'][k]
            nr2 = sum(v * v for row in r for v in row)
            nrt2 = sum(v * v for row in rti for v in row)
            Z = CR.sym_lower(z, off, m)
            Sm = CR.sym_lower(s, off, m)
            nZ = math.sqrt(sum(v * v for row in Z for v in row))
            nS = math.sqrt(sum(v * v for row in Sm for v in row))
            e1 = math.sqrt(sum((wz[off + j * m + i] - (lam[i] if i == j else 0.0)) ** 2 for i in range(m) for j in range(m)))
            e2 = math.sqrt(sum((wts[off + j * m + i] - (lam[i] if i == j else 0.0)) ** 2 for i in range(m) for j in range(m)))
            out.append(('Wz-lambda(s)', e1 / max(nr2 * nZ, 1e-300) if m else 0.0))
            out.append(('W^-Ts-lambda(s)', e2 / max(nrt2 * nS, 1e-300) if m else 0.0))
            il += m
    return out


class Monitor:
    def __init__(self):
        self.worst = {}
        self.failures = []
        self.calls = 0
        self.with_iterates = 0

    def __call__(self, kind, Wfac, args, ph):
        self.calls += 1
        # the solver frame: its own W, s, z, lmbda (read only)
        f = sys._getframe(1)
        frame = None
        while f is not None:
            if f.f_code.co_name in faults.SOLVER_FRAMES and f.f_code.co_filename.endswith(('coneprog.py', 'cvxprog.py')):
                frame = f
                break
            f = f.f_back
        checks = []
        inv, bad = w_invariants(Wfac, 'factory')
        checks += inv
        if frame is not None:
            loc = frame.f_locals
            Wf = loc.get('W')
            iters = loc.get('iters')
            if Wf is not None and iters is not None and 'lmbda' in loc and 'd' in Wf:
                inv2, bad2 = w_invariants(Wf, 'solver')
                checks += inv2
                bad += bad2
                dims = loc.get('dims')
                mnl = loc.get('mnl', 0) or 0
                if frame.f_code.co_name == 'coneqp' and 'dims' in loc and CR.cdim(loc['dims']) == 0:
                    pass
                else:
                    s, z, lm = list(loc['s']), list(loc['z']), list(loc['lmbda'])
                    d = {'l': dims['l'], 'q': list(dims['q']), 's': list(dims['s'])}
                    if len(s) == CR.cdim(d, mnl):
                        checks += lambda_relation(Wf, s, z, lm, d, mnl)
                        self.with_iterates += 1
        for name, val in checks:
            if not (val <= self.worst.get(name, 0.0)):
                self.worst[name] = val
            if not (val <= INV_BOUND):
                self.failures.append((name, val, ph))
        for b in bad:
            self.failures.append(('sign', b, ph))


def gen_monitored(rng):
    from engines import faultsim
    inst = faultsim.gen_instance(rng)
    inst.pop('planted', None)
    # a regularised KKT matrix (kktreg) is not the documented block system, and with it conelp no longer refuses
    # rank-deficient data but iterates on nan: the invariants are stated for data that satisfy the rank assumptions
    inst['options'] = {k_: v_ for k_, v_ in inst['options'].items() if k_ != 'kktreg'}
    plan = {}
    r = rng.random()
    if r < 0.5:
        plan = {}
    elif r < 0.8:
        plan = {'kkt': [['factor', rng.randint(2, 14)]]}
    else:
        a = rng.randint(2, 12)
        plan = {'kkt': [['factor', a], ['factor', a + 1]] if rng.random() < 0.5 else [['factor', a], ['solve', rng.randint(1, 40)]]}
    return {'type': 'monitored', 'inst': inst, 'plan': plan}


def run_monitored(case, journal):
    from engines import faultsim
    from cvxopt import misc
    inst, plan = case['inst'], case['plan']
    mon = Monitor()
    log = core.Log()
    # simulate() builds its own seam; attach the monitor through a subclass hook
    orig_init = faults.KktSeam.__init__

    def init(self, *a, **kw):
        orig_init(self, *a, **kw)
        self.monitors.append(mon)
    faults.KktSeam.__init__ = init
    try:
        out = faultsim.simulate(inst, plan)
    finally:
        faults.KktSeam.__init__ = orig_init
    stats = {'steps': mon.calls, 'monitored_kktsolver_calls': mon.calls, 'monitored_calls_with_iterates': mon.with_iterates}
    for k, v in mon.worst.items():
        stats['max.inv.' + k] = v
    for f in out.seam.fired:
        stats['fault.kkt_%s_during_monitored_solve' % f[0]] = stats.get('fault.kkt_%s_during_monitored_solve' % f[0], 0) + 1
    restored = inst['kind'] in ('cpl', 'cp') and out.seam.fired and len(out.seam.calls) > out.seam.calls.index(
        [c for c in out.seam.calls if c[0] == out.seam.fired[0][0] and c[1] == out.seam.fired[0][1]][0]) + 1
    if restored:
        stats['probe.W_checked_after_cpl_restore'] = 1
    log.add('monitored', inst['kind'], mon.calls, sorted((k, '%.1e' % v) for k, v in mon.worst.items()))
    v = None
    # The invariants are a statement about solves that are going somewhere.  A run that has been diverging or
    # stalling for more than 30 iterations and ends 'unknown' at the iteration limit (entries of size 1e20, the
    # numerical breakdown of F27) carries scalings nobody can use: drift found only there is counted, not judged.
    status = out.res.get('status') if isinstance(out.res, dict) else None
    if mon.failures and status not in ('optimal', 'primal infeasible', 'dual infeasible'):
        late = [f for f in mon.failures if isinstance(f[2], (tuple, list)) and len(f[2]) > 1 and isinstance(f[2][1], int) and f[2][1] > 30]
        if late:
            stats['probe.late_drift_in_solve_that_did_not_converge'] = len(late)
            mon.failures = [f for f in mon.failures if f not in late]
    if mon.failures:
        name, val, ph = mon.failures[0]
        v = {'oracle': 'scaling-invariant', 'klass': 'scaling-invariant:%s:%s' % (inst['kind'], name),
             'sig': {'oracle': 'scaling-invariant', 'entry': inst['kind'], 'invariant': name, 'faulted': bool(out.seam.fired)},
             'detail': 'scaling handed to the KKT solver violates %s: %r (solver phase %s, %d violations in this solve)' % (name, val, ph, len(mon.failures))}
    stats['_ncalls'] = mon.calls
    return {'violation': v, 'digest': log.digest(), 'stats': stats}


# ----------------------------------------------------------------------------- engine interface

def execute(case, journal):
    warmup()
    if case['type'] == 'history':
        r = run_history(case, journal)
    else:
        r = run_monitored(case, journal)
    return r


def run_unit(seed, tier, r, journal):
    warmup()
    rng = random.Random(seed)
    res = {'evaluations': 0, 'nontrivial_digests': [], 'stats': {}, 'violations': [], 'samples': [], 'digest': None}
    ulog = core.Log()

    def merge(st):
        for k, n in st.items():
            if k.startswith('_'):
                continue
            if k.startswith('max.'):
                res['stats'][k] = max(res['stats'].get(k, 0), n)
            else:
                res['stats'][k] = res['stats'].get(k, 0) + n

    cases = [gen_history(rng) for _ in range(HIST_PER_UNIT)] + [gen_monitored(rng) for _ in range(SOLVES_PER_UNIT)]
    for i, case in enumerate(cases):
        journal.begin_case(case)
        out = execute(case, journal)
        journal.end_case()
        res['evaluations'] += 1
        ulog.add(i, out['digest'])
        merge(out['stats'])
        if case['type'] == 'history':
            res['stats']['histories'] = res['stats'].get('histories', 0) + 1
            res['stats']['histories.' + case['data']['solver']] = res['stats'].get('histories.' + case['data']['solver'], 0) + 1
            if out['stats'].get('_nfact', 0) >= 2:
                res['nontrivial_digests'].append(core.sha(case))
        else:
            res['stats']['monitored_solves'] = res['stats'].get('monitored_solves', 0) + 1
            res['stats']['monitored_solves.' + case['inst']['kind']] = res['stats'].get('monitored_solves.' + case['inst']['kind'], 0) + 1
            if out['stats'].get('_ncalls', 0) >= 3:
                res['nontrivial_digests'].append(core.sha(case))
        if out['violation'] is not None:
            res['violations'].append({'case': case, 'violation': out['violation']})
        if i == 0 and r % 16 == 0:
            d = case['data']
            res['samples'].append({'type': 'history', 'solver': d['solver'], 'dims': d['dims'], 'mnl': d['mnl'], 'n': d['n'], 'p': d['p'],
                                   'sparse_G': d['G']['sparse'], 'zero_column': d['zero_col'],
                                   'ops': [o['op'] + (str(o.get('fault')) if 'fault' in o else '') for o in case['ops']]})
    res['digest'] = ulog.digest()
    return res


def shrink(case, still_fails):
    if case['type'] != 'history':
        from engines import faultsim
        small = faultsim.shrink({'inst': case['inst'], 'plan': case['plan']},
                                lambda c: still_fails({'type': 'monitored', 'inst': c['inst'], 'plan': c['plan']}))
        return {'type': 'monitored', 'inst': small['inst'], 'plan': small['plan']}
    ops = case['ops']
    small = core.ddmin(ops, lambda sub: bool(sub) and still_fails(dict(case, ops=sub)), budget=80)
    best = dict(case, ops=small) if small else case
    for key in ('G', 'A'):
        if best['data'][key].get('sparse'):
            d2 = dict(best['data'])
            d2[key] = dict(d2[key], sparse=False)
            c2 = dict(best, data=d2)
            if still_fails(c2):
                best = c2
    return best
