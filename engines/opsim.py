"""opsim — C13: an op object stays consistent under any sequence of edits (DESIGN 5.C13).

Fault-free corner of the technique: seeded edit/solve histories on a real modeling.op against a
list-based reference model checked after every operation; minimisation; exact replay.
"""
import io
import random
import contextlib

from simkit import core

NAME = 'opsim'
PROPERTY = 'C13'
LEVEL = 'exploration'
RULE = ('evaluation = one history of 3-15 operations (add constraint incl. duplicates, delete present/absent/wrong type, set objective '
        'valid/invalid, solve dense/sparse, query-and-scribble on returned lists, rename) on a modeling.op over a pool of 3-4 variables and '
        '8-12 constraints (affine, PWL max/abs/sum-abs, shared and multi-variable, constants-only), model checked after every operation. '
        'non-trivial = history with >= 1 effective delete or objective change and >= 1 solve; distinct = distinct digest of (pool, operations).')
SIM_TIME_NOTE = 'no clock; sim_steps = edit/solve operations applied'
STUBS = ['reference model: Python lists {objective, constraints} with the documented add/delete semantics',
         'no scheduler and no injected fault: refused operations are ordinary operations (fault-free corner)']
ASSUMPTIONS = ['status compared only when both sides are decisive (optimal / primal infeasible / dual infeasible); optimal values to 1e-5 relative (the LPs themselves are solved to reltol 1e-6)',
               'constraint pools use continuous random right-hand sides, so exactly degenerate feasibility has probability zero',
               'solvers.lp (default KKT solver) is used by both the edited and the fresh op']
TIERS = {'quick': {'units': 160, 'wall_cap': 70.0, 'unit_timeout': 300.0},
         'thorough': {'units': 6000, 'wall_cap': 900.0, 'unit_timeout': 600.0}}
HIST_PER_UNIT = 40


def warmup():
    import cvxopt
    from cvxopt import solvers, modeling  # noqa
    solvers.options['show_progress'] = False


# ----------------------------------------------------------------------------- pool

def rnd(rng, lo=-1.0, hi=1.0):
    v = round(rng.uniform(lo, hi), 4)
    return v if abs(v) > 0.05 else 0.5


def gen_pool(rng):
    nv = rng.randint(3, 4)
    variables = [{'n': rng.choice([1, 1, 2, 3]), 'name': rng.choice(['', 'v%d' % i])} for i in range(nv)]
    if not any(v['n'] == 1 for v in variables):
        variables[0]['n'] = 1
    cons = []
    # boxes keep most problems bounded
    for i, v in enumerate(variables):
        B = round(rng.uniform(2.0, 6.0), 3)
        cons.append({'t': 'aff', 'rel': '<=', 'terms': [[i, eye(v['n'])]], 'rhs': [B + rnd(rng) * 0.1 for _ in range(v['n'])]})
        cons.append({'t': 'aff', 'rel': '>=', 'terms': [[i, eye(v['n'])]], 'rhs': [-B + rnd(rng) * 0.1 for _ in range(v['n'])]})
    for _ in range(rng.randint(3, 6)):
        r = rng.random()
        if r < 0.35:
            # affine over 1-3 variables, vector or scalar
            m = rng.choice([1, 1, 2])
            k = rng.randint(1, min(3, nv))
            vs = rng.sample(range(nv), k)
            terms = [[vi, {'m': m, 'n': variables[vi]['n'], 'v': [rnd(rng) for _ in range(m * variables[vi]['n'])]}] for vi in vs]
            cons.append({'t': 'aff', 'rel': rng.choice(['<=', '<=', '>=']), 'terms': terms, 'rhs': [rnd(rng, 0.5, 3.0) for _ in range(m)],
                         'sp': bool(rng.random() < 0.3)})
        elif r < 0.5:
            vi = rng.randrange(nv)
            k = rng.randint(1, 2)
            vs = rng.sample(range(nv), min(k, nv))
            me = rng.choice([1, 1, 2])
            terms = [[vj, {'m': me, 'n': variables[vj]['n'], 'v': [rnd(rng) for _ in range(me * variables[vj]['n'])]}] for vj in vs]
            cons.append({'t': 'aff', 'rel': '==', 'terms': terms, 'rhs': [rnd(rng, -0.5, 0.5) for _ in range(me)], 'sp': bool(rng.random() < 0.3)})
        elif r < 0.62:
            cons.append({'t': 'max', 'vi': rng.randrange(nv), 'rhs': rnd(rng, 0.5, 3.0)})
        elif r < 0.74:
            cons.append({'t': 'abs', 'vi': rng.randrange(nv), 'rhs': rnd(rng, 0.5, 3.0)})
        elif r < 0.88:
            vi = rng.randrange(nv)
            ones = [j for j in range(nv) if variables[j]['n'] == 1 and j != vi]
            cons.append({'t': 'sumabs', 'vi': vi, 'extra': rng.choice(ones) if ones and rng.random() < 0.6 else None,
                         'rhs': rnd(rng, 1.0, 4.0)})
        else:
            cons.append({'t': 'const', 'vi': rng.randrange(nv), 'rhs': rnd(rng, 0.5, 2.0) * (1 if rng.random() < 0.8 else -1)})
    # further documented forms: concave >=, max of two functions, slices, sums, a scaled piecewise-linear term
    for _ in range(rng.randint(1, 3)):
        r = rng.random()
        vi = rng.randrange(nv)
        ones = [j for j in range(nv) if variables[j]['n'] == 1 and j != vi]
        if r < 0.2:
            cons.append({'t': 'min', 'vi': vi, 'rhs': rnd(rng, 0.5, 3.0)})
        elif r < 0.45 and ones:
            cons.append({'t': 'max2', 'vi': vi, 'vj': rng.choice(ones), 'shift': rnd(rng), 'rhs': rnd(rng, 0.5, 3.0)})
        elif r < 0.6:
            cons.append({'t': 'slice', 'vi': vi, 'k': rng.randint(1, variables[vi]['n']), 'rhs': rnd(rng, 0.5, 3.0)})
        elif r < 0.8:
            cons.append({'t': 'sum', 'vi': vi, 'rel': rng.choice(['<=', '>=', '==']), 'rhs': rnd(rng, 0.5, 2.0)})
        else:
            cons.append({'t': 'scaledabs', 'vi': vi, 'a': rng.choice([2.0, 0.5, 3.0]), 'rhs': rnd(rng, 1.0, 4.0)})
    objs = []
    for _ in range(rng.randint(2, 3)):
        k = rng.randint(1, min(3, nv))
        vs = rng.sample(range(nv), k)
        objs.append({'t': 'aff', 'terms': [[vi, [rnd(rng) for _ in range(variables[vi]['n'])]] for vi in vs], 'const': rnd(rng)})
    objs.append({'t': 'sumabs', 'vi': rng.randrange(nv)})
    objs.append({'t': 'max', 'vi': rng.randrange(nv)})
    ones = [j for j in range(nv) if variables[j]['n'] == 1]
    objs.append({'t': 'var', 'vi': rng.choice(ones)})
    objs.append({'t': 'num', 'v': rng.choice([0.0, 3, 1.5])})
    big = [j for j in range(nv) if variables[j]['n'] > 1]
    if big:
        objs.append({'t': 'vector', 'vi': rng.choice(big)})
    objs.append({'t': 'concave', 'vi': rng.choice(ones)})
    objs.append({'t': 'maxaff', 'vi': rng.choice(ones), 'a': rnd(rng, 0.5, 2.0), 'b': rnd(rng, 0.5, 2.0), 'c': rnd(rng)})
    objs.append({'t': 'sumvar', 'vi': rng.randrange(nv), 'sign': rng.choice([1.0, -1.0])})
    a_, b_ = rng.randrange(nv), rng.randrange(nv)
    objs.append({'t': 'affpwl', 'vi': a_, 'vj': b_, 'coef': [rnd(rng) for _ in range(variables[a_]['n'])]})      # dot(c, x) + sum(abs(y))
    objs.append({'t': 'twopwl', 'vi': a_, 'vj': b_})                                                              # sum(abs(x)) + max(y)
    return {'variables': variables, 'constraints': cons, 'objectives': objs}


def eye(n):
    return {'m': n, 'n': n, 'v': [1.0 if i == j else 0.0 for j in range(n) for i in range(n)]}


def spec_vars(spec):
    t = spec['t']
    if t == 'aff':
        return [vi for vi, _ in spec['terms']]
    if t in ('max', 'abs', 'var', 'vector', 'concave', 'min', 'slice', 'sum', 'scaledabs', 'maxaff', 'sumvar'):
        return [spec['vi']]
    if t in ('max2', 'affpwl', 'twopwl'):
        return [spec['vi'], spec['vj']] if spec['vi'] != spec['vj'] else [spec['vi']]
    if t == 'sumabs':
        return [spec['vi']] + ([spec['extra']] if spec.get('extra') is not None else [])
    return []      # const / num


def obj_valid(spec):
    return spec['t'] not in ('vector', 'concave')


def gen_history(rng):
    pool = gen_pool(rng)
    nc, no = len(pool['constraints']), len(pool['objectives'])
    valid_objs = [i for i, o in enumerate(pool['objectives']) if obj_valid(o)]
    init_obj = rng.choice(valid_objs)
    init_cons = [i for i in range(nc) if rng.random() < 0.5]
    ops = []
    present = list(init_cons)
    for _ in range(rng.randint(3, 15)):
        r = rng.random()
        if r < 0.22:
            c = rng.randrange(nc)
            ops.append(['add', c])
            present.append(c)
        elif r < 0.47:
            if present and rng.random() < 0.75:
                c = rng.choice(present)
                present.remove(c)
            else:
                c = rng.randrange(nc)
                if c in present:
                    present.remove(c)
            ops.append(['del', c])
        elif r < 0.50:
            ops.append(['del_bad', rng.choice(['int', 'function', 'none', 'variable', 'list'])])
        elif r < 0.52:
            ops.append(['add_bad', rng.choice(['none', 'list', 'variable', 'function', 'string'])])
        elif r < 0.70:
            ops.append(['obj', rng.randrange(no)])
        elif r < 0.88:
            ops.append(['solve', rng.choice(['dense', 'sparse'])])
        elif r < 0.95:
            ops.append(['scribble'])
        else:
            ops.append(['name', rng.choice(['lp1', '', 7])])
    if not any(o[0] == 'solve' for o in ops):
        ops.append(['solve', 'dense'])
    case = {'pool': pool, 'init_obj': init_obj, 'init_cons': init_cons, 'ops': ops}
    r = rng.random()
    if r < 0.1 and init_cons:
        case['init_cons'] = init_cons[:1]
        case['init_form'] = 'single'          # op(objective, c) with one constraint instead of a list
    elif r < 0.18:
        case['init_cons'] = []
        case['init_form'] = rng.choice(['none', 'omitted'])
    elif r < 0.28 and init_cons:
        case['init_cons'] = init_cons + [rng.choice(init_cons)]
        case['init_form'] = 'list'            # a constraint twice in the initial list
    elif r < 0.32:
        case['init_form'] = rng.choice(['bad_tuple', 'bad_element'])
    return case


# ----------------------------------------------------------------------------- building the real objects

def build(pool):
    from cvxopt import matrix, modeling as M
    vs = [M.variable(v['n'], v['name']) for v in pool['variables']]

    def aff(terms, m, sp=False):
        from cvxopt import sparse as _sparse
        f = None
        for vi, A in terms:
            Am = matrix(A['v'], (A['m'], A['n']), 'd')
            t = (_sparse(Am) if sp else Am) * vs[vi]
            f = t if f is None else f + t
        return f

    cons = []
    for s in pool['constraints']:
        t = s['t']
        if t == 'aff':
            m = s['terms'][0][1]['m']
            f = aff(s['terms'], m, s.get('sp', False))
            rhs = matrix(s['rhs'], (m, 1), 'd') if m > 1 else s['rhs'][0]
            c = (f <= rhs) if s['rel'] == '<=' else ((f >= rhs) if s['rel'] == '>=' else (f == rhs))
        elif t == 'max':
            c = (M.max(vs[s['vi']]) <= s['rhs'])
        elif t == 'abs':
            c = (abs(vs[s['vi']]) <= s['rhs'])
        elif t == 'sumabs':
            f = M.sum(abs(vs[s['vi']]))
            if s.get('extra') is not None:
                f = f + vs[s['extra']]
            c = (f <= s['rhs'])
        elif t == 'min':
            c = (M.min(vs[s['vi']]) >= -s['rhs'])
        elif t == 'max2':
            c = (M.max(vs[s['vi']], vs[s['vj']] + s['shift']) <= s['rhs'])
        elif t == 'slice':
            c = (vs[s['vi']][:s['k']] <= s['rhs'])
        elif t == 'sum':
            f = M.sum(vs[s['vi']])
            c = (f <= s['rhs']) if s['rel'] == '<=' else ((f >= -s['rhs']) if s['rel'] == '>=' else (f == s['rhs'] * 0.25))
        elif t == 'scaledabs':
            f = abs(vs[s['vi']])
            f *= s['a']
            c = (M.sum(f) <= s['rhs'])
        else:
            c = (0 * vs[s['vi']] <= s['rhs'])
        cons.append(c)

    def objective(s):
        t = s['t']
        if t == 'aff':
            f = None
            for vi, coef in s['terms']:
                tm = M.dot(matrix(coef, (len(coef), 1), 'd'), vs[vi])
                f = tm if f is None else f + tm
            return f + s['const']
        if t == 'sumabs':
            return M.sum(abs(vs[s['vi']]))
        if t == 'max':
            return M.max(vs[s['vi']])
        if t == 'var':
            return vs[s['vi']]
        if t == 'num':
            return s['v']
        if t == 'affpwl':
            return M.dot(matrix(s['coef'], (len(s['coef']), 1), 'd'), vs[s['vi']]) + M.sum(abs(vs[s['vj']]))
        if t == 'twopwl':
            return M.sum(abs(vs[s['vi']])) + M.max(vs[s['vj']])
        if t == 'maxaff':
            x = vs[s['vi']]
            return M.max(s['a'] * x + s['c'], -s['b'] * x)
        if t == 'sumvar':
            return s['sign'] * M.sum(vs[s['vi']])
        if t == 'vector':
            return vs[s['vi']]
        return -abs(vs[s['vi']])
    return vs, cons, objective


DOCUMENTED = (TypeError, AttributeError)


def run_history(case, journal):
    from cvxopt import modeling as M
    pool = case['pool']
    log = core.Log()
    stats = {}

    def bump(k, c=1):
        stats[k] = stats.get(k, 0) + c

    def V(oracle, detail, **sig):
        s = {'oracle': oracle}
        s.update(sig)
        return {'violation': {'oracle': oracle, 'klass': '%s:%s' % (oracle, sig.get('op', '')), 'sig': s, 'detail': detail},
                'digest': log.digest(), 'stats': stats}

    vs, cons, mkobj = build(pool)
    # reference model
    m_obj = case['init_obj']
    m_cons = list(case['init_cons'])
    form = case.get('init_form', 'list')
    o0 = mkobj(pool['objectives'][m_obj])
    if form in ('bad_tuple', 'bad_element'):
        try:
            M.op(o0, tuple(cons[i] for i in m_cons) if form == 'bad_tuple' else [cons[i] for i in m_cons] + [5])
            return V('refusal-missing', 'op(objective, %s) was accepted' % form, op='init')
        except TypeError:
            bump('refused_operations')
        form = 'list'
    if form == 'single':
        prob = M.op(o0, cons[m_cons[0]])
    elif form == 'none':
        prob = M.op(o0, None)
    elif form == 'omitted':
        prob = M.op(o0)
    else:
        prob = M.op(o0, [cons[i] for i in m_cons])
    obj_objects = {m_obj: prob.objective}
    held = []       # (getter name, ids at the time): lists handed out earlier must not follow later edits
    effective_edits = 0
    nsolve = 0

    def check(i, opname):
        # variables
        want = set()
        for vi in spec_vars(pool['objectives'][m_obj]):
            want.add(id(vs[vi]))
        for ci in m_cons:
            for vi in spec_vars(pool['constraints'][ci]):
                want.add(id(vs[vi]))
        got = prob.variables()
        gid = [id(v) for v in got]
        if len(set(gid)) != len(gid):
            return V('variables-duplicated', 'op.variables() lists a variable twice after op %d (%s)' % (i, opname), op=opname)
        if set(gid) != want:
            extra = [k for k, v in enumerate(vs) if id(v) in set(gid) - want]
            miss = [k for k, v in enumerate(vs) if id(v) in want - set(gid)]
            return V('variables-mismatch', 'after op %d (%s): op.variables() lists stale variables %s / misses %s '
                     '(pool indices); model constraints %s objective %s' % (i, opname, extra, miss, m_cons, m_obj),
                     op=opname, stale=bool(extra), missing=bool(miss))
        want_in = sorted(id(cons[ci]) for ci in m_cons if pool_type(pool, ci) == '<')
        want_eq = sorted(id(cons[ci]) for ci in m_cons if pool_type(pool, ci) == '=')
        a, b, c = prob.inequalities(), prob.equalities(), prob.constraints()
        if sorted(map(id, a)) != want_in or sorted(map(id, b)) != want_eq:
            return V('constraints-mismatch', 'after op %d (%s): inequalities()/equalities() differ from the model %s' % (i, opname, m_cons), op=opname)
        if list(map(id, c)) != list(map(id, a)) + list(map(id, b)):
            return V('constraints-mismatch', 'after op %d (%s): constraints() is not inequalities() + equalities()' % (i, opname), op=opname)
        # repr() reads the same bookkeeping: total lengths of variables / inequalities / equalities
        nums = [int(t_) for t_ in repr(prob).replace(',', ' ').split() if t_.isdigit()]
        wantn = [sum(len(v) for v in got), sum(len(x) for x in a), sum(len(x) for x in b)]
        if nums != wantn:
            return V('repr-mismatch', 'after op %d (%s): repr() says %r, the lists say %r' % (i, opname, nums, wantn), op=opname)
        for lst, ids_ in held:
            if list(map(id, lst)) != ids_:
                return V('lists-not-copies', 'after op %d (%s): a list returned earlier changed with the problem' % (i, opname), op=opname, direction='held')
        return None

    bad = check(-1, 'init')
    if bad:
        return bad
    for i, op in enumerate(case['ops']):
        journal.begin_op(i)
        kind = op[0]
        log.add(i, op)
        bump('steps')
        try:
            if kind == 'add':
                prob.addconstraint(cons[op[1]])
                if op[1] in m_cons:
                    bump('probe.constraint_added_while_already_present')
                if pool['constraints'][op[1]]['t'] != 'aff':
                    bump('probe.piecewise_linear_constraint_added')
                m_cons.append(op[1])
            elif kind == 'del':
                prob.delconstraint(cons[op[1]])
                if op[1] in m_cons:
                    m_cons.remove(op[1])
                    effective_edits += 1
                    bump('deletes_of_present_constraint')
                else:
                    bump('deletes_of_absent_constraint')
            elif kind == 'add_bad':
                arg = {'none': None, 'list': [cons[0]], 'variable': vs[0], 'function': vs[0] + 1, 'string': 'c'}[op[1]]
                try:
                    prob.addconstraint(arg)
                    return V('refusal-missing', 'addconstraint(%s) was accepted' % op[1], op=kind)
                except TypeError:
                    bump('refused_operations')
            elif kind == 'del_bad':
                arg = {'int': 5, 'function': vs[0] + 1, 'none': None, 'variable': vs[0], 'list': [cons[0]]}[op[1]]
                try:
                    prob.delconstraint(arg)
                    return V('refusal-missing', 'delconstraint(%s) was accepted' % op[1], op=kind)
                except TypeError:
                    bump('refused_operations')
            elif kind == 'obj':
                spec = pool['objectives'][op[1]]
                f = mkobj(spec)
                if obj_valid(spec):
                    prob.objective = f
                    m_obj = op[1]
                    effective_edits += 1
                    bump('objective_changes')
                else:
                    try:
                        prob.objective = f
                        return V('refusal-missing', 'invalid objective (%s) was accepted' % spec['t'], op=kind)
                    except TypeError:
                        bump('refused_operations')
            elif kind == 'name':
                if isinstance(op[1], str):
                    prob.name = op[1]
                else:
                    try:
                        prob.name = op[1]
                        return V('refusal-missing', 'non-string name accepted', op=kind)
                    except TypeError:
                        bump('refused_operations')
            elif kind == 'scribble':
                for getter in (prob.variables, prob.constraints, prob.inequalities, prob.equalities):
                    lst = getter()
                    lst.append('junk')
                    if len(lst) > 1:
                        del lst[0]
                    if getter() is lst:
                        return V('lists-not-copies', '%s() returned the same list object twice' % getter.__name__, op=kind)
                    keep = getter()
                    if len(held) < 8:
                        held.append((keep, list(map(id, keep))))
            elif kind == 'solve':
                nsolve += 1
                r1 = solve_once(prob, op[1])
                fresh = M.op(prob_objective_for_fresh(M, mkobj, pool, m_obj), [cons[ci] for ci in m_cons])
                r2 = solve_once(fresh, op[1])
                if not lp_rank_ok(fresh):
                    # the LP violates the solver's standing assumption Rank([G; A]) = n (e.g. two variables that
                    # occur only in one common row): lp's answer then depends on the column order and says
                    # nothing about the bookkeeping
                    bump('solves_rank_deficient_lp_inconclusive')
                    journal.end_op(i)
                    continue
                log.add('solve', r1[:2], r2[:2])
                # a rank-deficient LP ends in ValueError('Rank...') or 'unknown' depending on column order: not decisive
                if r1[:2] == ('exc', 'ValueError') and 'Rank(' in r1[2]:
                    r1 = ('ok', 'unknown', None)
                if r2[:2] == ('exc', 'ValueError') and 'Rank(' in r2[2]:
                    r2 = ('ok', 'unknown', None)
                if r1[0] == 'exc' or r2[0] == 'exc':
                    if r1[:3] != r2[:3]:
                        return V('solve-differs-from-fresh', 'op %d: edited op -> %r, freshly constructed op -> %r' % (i, r1, r2), op=kind, what='exception')
                    # the same refusal on both sides is consistent; which exceptions solve() may raise for a
                    # given LP is the business of C12, not of the edit bookkeeping
                    bump('solves_refused_by_both.' + r1[1])
                else:
                    dec = ('optimal', 'primal infeasible', 'dual infeasible')
                    if r1[1] in dec and r2[1] in dec:
                        if r1[1] != r2[1]:
                            return V('solve-differs-from-fresh', 'op %d: status %r, fresh op %r' % (i, r1[1], r2[1]), op=kind, what='status')
                        if r1[1] == 'optimal':
                            a, b = r1[2], r2[2]
                            if abs(a - b) > 1e-5 * max(1.0, abs(a), abs(b)):   # both LPs are solved to reltol 1e-6 / abstol 1e-7
                                return V('solve-differs-from-fresh', 'op %d: optimal value %r, fresh op %r' % (i, a, b), op=kind, what='value')
                        bump('solves_compared.' + r1[1].replace(' ', '_'))
                        if effective_edits >= 1:
                            bump('probe.solve_compared_with_fresh_op_after_a_deletion')
                        if len(set(m_cons)) < len(m_cons):
                            bump('probe.solve_with_a_constraint_present_twice')
                    else:
                        bump('solves_inconclusive')
        except DOCUMENTED as e:
            # a documented exception type from an operation the model expected to succeed
            return V('unexpected-refusal', 'op %d %r raised %s: %s' % (i, op, type(e).__name__, e), op=kind, exc=type(e).__name__)
        except Exception as e:   # noqa
            return V('undocumented-exception', 'op %d %r raised %s: %s' % (i, op, type(e).__name__, e), op=kind, exc=type(e).__name__)
        bad = check(i, kind)
        if bad:
            return bad
        journal.end_op(i)
    stats['_nontrivial'] = 1 if (effective_edits >= 1 and nsolve >= 1) else 0
    return {'violation': None, 'digest': log.digest(), 'stats': stats}


def lp_rank_ok(prob):
    """Rank(A) = p and Rank([G; A]) = n for the LP in matrix form (pure-Python elimination)"""
    from cvxopt import matrix
    from simkit import cone_ref as CR
    try:
        t = prob._inmatrixform('dense')
        lp1 = prob if t is None else t[0]
        vs_ = lp1.variables()
        if len(vs_) != 1 or not lp1._inequalities:
            return True
        x = vs_[0]
        G = matrix(lp1._inequalities[0]._f._linear._coeff[x])
        rows = [[G[i, j] for j in range(G.size[1])] for i in range(G.size[0])]
        arows = []
        if lp1._equalities:
            A = matrix(lp1._equalities[0]._f._linear._coeff[x])
            arows = [[A[i, j] for j in range(A.size[1])] for i in range(A.size[0])]
        n = G.size[1]
        rk, _ = CR.numeric_rank(rows + arows, tol=1e-7)
        rka, _ = CR.numeric_rank(arows, tol=1e-7) if arows else (0, 1.0)
        return rk == n and rka == len(arows)
    except Exception:   # noqa — the guard must never decide a verdict
        return True


def prob_objective_for_fresh(M, mkobj, pool, m_obj):
    return mkobj(pool['objectives'][m_obj])


def pool_type(pool, ci):
    s = pool['constraints'][ci]
    return '=' if (s['t'] in ('aff', 'sum') and s['rel'] == '==') else '<'


def solve_once(prob, fmt):
    buf = io.StringIO()
    try:
        with contextlib.redirect_stdout(buf):
            prob.solve(fmt)
    except Exception as e:   # noqa
        return ('exc', type(e).__name__, str(e))
    val = None
    if prob.status == 'optimal':
        v = prob.objective.value()
        val = float(v[0]) if v is not None else None
    return ('ok', prob.status, val)


# ----------------------------------------------------------------------------- engine interface

def execute(case, journal):
    warmup()
    return run_history(case, journal)


def run_unit(seed, tier, r, journal):
    warmup()
    rng = random.Random(seed)
    res = {'evaluations': 0, 'nontrivial_digests': [], 'stats': {}, 'violations': [], 'samples': [], 'digest': None}
    ulog = core.Log()
    for k in range(HIST_PER_UNIT):
        case = gen_history(rng)
        journal.begin_case(case)
        out = run_history(case, journal)
        journal.end_case()
        res['evaluations'] += 1
        ulog.add(k, out['digest'])
        for kk, n in out['stats'].items():
            if not kk.startswith('_'):
                res['stats'][kk] = res['stats'].get(kk, 0) + n
        if out['stats'].get('_nontrivial'):
            res['nontrivial_digests'].append(core.sha(case))
        if out['violation'] is not None:
            res['violations'].append({'case': case, 'violation': out['violation']})
        if k == 0 and r % 16 == 0:
            res['samples'].append({'variables': case['pool']['variables'], 'constraint_kinds': [c['t'] for c in case['pool']['constraints']],
                                   'objective_kinds': [o['t'] for o in case['pool']['objectives']], 'initial_objective': case['init_obj'],
                                   'initial_constraints': case['init_cons'], 'ops': case['ops']})
    res['digest'] = ulog.digest()
    return res


def shrink(case, still_fails):
    small = core.ddmin(case['ops'], lambda sub: bool(sub) and still_fails(dict(case, ops=sub)), budget=120)
    best = dict(case, ops=small) if small else case
    ic = core.ddmin(best['init_cons'], lambda sub: still_fails(dict(best, init_cons=sub)), budget=60)
    cand = dict(best, init_cons=ic)
    if still_fails(cand):
        best = cand
    return best
