"""sparsesim — C16: sparse matrices are a faithful, structurally valid image of the dense semantics
(DESIGN 5.C16).  Fault-free corner: seeded histories of mutating operations on sparse objects,
mirrored on dense twins; CCS validity + equality with the twin after every step; interpreter
crashes are verdicts (operation journal); allocator seam (guard bytes, poison) armed.

Histories are generated while executing (the generator looks at the real current sizes), and
recorded as explicit literal operations, so a replay file is just the operation list.
"""
import ctypes
import os
import random

from simkit import core
from simkit import oracles as O

NAME = 'sparsesim'
PROPERTY = 'C16'
LEVEL = 'exploration'
RULE = ('evaluation = one history of 5-30 operations over a pool of sparse objects (real/complex, up to 5x5, empty/full/explicit zeros/'
        'empty rows and columns/zero dimensions, small-integer values) and their dense twins: indexed assignment with every index kind and '
        'scalar/dense/sparse right-hand sides, V assignment, size change, += -= *= /=, axpy, gemm and syrk incl. partial=True, gemv/symv, '
        'and non-mutating results (T, H, real, imag, abs, neg, +, -, *, scalar ops, S[idx], sparse(), spdiag()) joining the pool. '
        'non-trivial = history with >= 2 mutating operations applied to one sparse object; distinct = distinct digest of the operation list.')
SIM_TIME_NOTE = 'no clock; sim_steps = operations applied'
STUBS = ['dense twin (cvxopt dense matrix + dense BLAS) as reference model', 'allocator seam libvpalloc (guard bytes, poison-on-free, quarantine) — observation only',
         'no scheduler and no injected fault (fault-free corner): crashes of the interpreter are verdicts via the operation journal']
ASSUMPTIONS = ['the oracle is the property\'s own definition (dense image): an error common to the dense and the sparse code is invisible here',
               'assignment index lists have no duplicates (order of duplicate writes is undefined); values are small integers so all arithmetic is exact',
               'dense matrices and dense BLAS of the same build are trusted as the twin']
TIERS = {'quick': {'units': 96, 'wall_cap': 70.0, 'unit_timeout': 300.0},
         'thorough': {'units': 6000, 'wall_cap': 900.0, 'unit_timeout': 600.0}}
HIST_PER_UNIT = 150
CRASHES_ARE_VERDICTS = True
_vp = None


def warmup():
    global _vp
    import cvxopt  # noqa
    if _vp is None:
        bd = os.environ.get('VERIF_BUILD_DIR', '')
        lib = os.path.join(bd, 'libvpalloc.so')
        if os.path.exists(lib):
            _vp = ctypes.CDLL(lib)
            _vp.vp_violation_text.restype = ctypes.c_char_p
            _vp.vp_arena_init()          # once per worker; forked children inherit the mapping
        else:
            _vp = False


def seam_check():
    """number of new allocator violations (guard overrun / write after free) and their text"""
    if not _vp:
        return 0, ''
    n = _vp.vp_check_all()
    if n or _vp.vp_violations():
        tot = _vp.vp_violations()
        txt = '; '.join(_vp.vp_violation_text(i).decode() for i in range(min(tot, 3)))
        _vp.vp_reset_violations()
        return tot, txt
    return 0, ''


# ----------------------------------------------------------------------------- literal <-> object

def num(v):
    return complex(v[0], v[1]) if isinstance(v, list) else v


def mk(spec):
    from cvxopt import matrix, spmatrix
    k = spec['k']
    if k == 'num':
        return num(spec['v'])
    if k == 'dense':
        return matrix([num(x) for x in spec['v']], (spec['m'], spec['n']), spec['tc'])
    if k == 'sparse':
        return spmatrix([num(x) for x in spec['V']], spec['I'], spec['J'], (spec['m'], spec['n']), spec['tc'])
    if k == 'list':
        vals = [num(x) for x in spec['v']]
        return tuple(vals) if spec.get('form') == 'tuple' else vals
    raise ValueError(k)


_IDX_WATCH = []


def mkidx(spec):
    """index object from its literal; list and integer-matrix indices are operands of the operation and
    are watched: check_indices() verifies afterwards that the operation left them alone"""
    from cvxopt import matrix
    k = spec['k']
    if k == 'int':
        return spec['v']
    if k == 'slice':
        return slice(*spec['v'])
    if k == 'list':
        o = list(spec['v'])
        _IDX_WATCH.append((o, list(spec['v'])))
        return o
    if k == 'imat':
        # the size of an index matrix is ignored (manual): any r x c with r*c entries
        sh = tuple(spec['sh']) if spec.get('sh') else (len(spec['v']), 1)
        o = matrix(spec['v'], sh, 'i')
        _IDX_WATCH.append((o, list(spec['v'])))
        return o
    raise ValueError(k)


def check_indices():
    """None, or a description of an index operand that an operation modified"""
    bad = None
    for o, want in _IDX_WATCH:
        if list(o) != want:
            bad = 'an index %s given as %r reads %r after the operation' % (type(o).__name__, want, list(o))
            break
    del _IDX_WATCH[:]
    return bad


def rint(rng, tc, nonzero=False):
    while True:
        v = float(rng.randint(-3, 3))
        if tc == 'z' and rng.random() < 0.6:
            v = [v, float(rng.randint(-3, 3))]
        if not nonzero or (v != 0.0 and v != [0.0, 0.0]):
            return v


def gen_sparse(rng, tc=None, m=None, n=None):
    tc = tc or rng.choice(['d', 'd', 'z'])
    m = rng.choice([0, 1, 2, 3, 4, 5]) if m is None else m
    n = rng.choice([0, 1, 2, 3, 4, 5]) if n is None else n
    style = rng.choice(['empty', 'full', 'random', 'random', 'random', 'zeros'])
    cells = [(i, j) for j in range(n) for i in range(m)]
    if style == 'empty':
        pick = []
    elif style == 'full':
        pick = cells
    else:
        d = rng.choice([0.2, 0.5, 0.8])
        pick = [c for c in cells if rng.random() < d]
    rng.shuffle(pick)
    I = [c[0] for c in pick]
    J = [c[1] for c in pick]
    V = [rint(rng, tc) if (style != 'zeros' and rng.random() < 0.85) else (0.0 if tc == 'd' else [0.0, 0.0]) for _ in pick]
    return {'k': 'sparse', 'm': m, 'n': n, 'I': I, 'J': J, 'V': V, 'tc': tc}


def gen_dense(rng, m, n, tc):
    return {'k': 'dense', 'm': m, 'n': n, 'tc': tc, 'v': [rint(rng, tc) for _ in range(m * n)]}


def gen_index(rng, length, for_assign=True):
    """one index expression over range(length); mostly valid; no duplicates when for_assign"""
    r = rng.random()
    if length == 0:
        return rng.choice([{'k': 'slice', 'v': [None, None, None]}, {'k': 'list', 'v': []}, {'k': 'imat', 'v': []},
                           {'k': 'int', 'v': 0}, {'k': 'slice', 'v': [0, 0, 1]}])
    if r < 0.25:
        v = rng.randint(-length, length - 1)
        if rng.random() < 0.06:
            v = rng.choice([length, -length - 1, length + 3])
        return {'k': 'int', 'v': v}
    if r < 0.55:
        start = rng.choice([None, 0, rng.randint(-length, length), rng.randint(0, length)])
        stop = rng.choice([None, length, rng.randint(-length, length), rng.randint(0, length + 1)])
        step = rng.choice([None, 1, 1, 2, -1, -2, 3])
        return {'k': 'slice', 'v': [start, stop, step]}
    k = rng.randint(0, length)
    if for_assign:
        base = rng.sample(range(length), k)
    else:
        base = [rng.randrange(length) for _ in range(k)]
    # negative aliases of the same positions (negative indices in lists)
    vals = [b - length if rng.random() < 0.3 else b for b in base]
    if rng.random() < 0.05 and vals:
        vals[rng.randrange(len(vals))] = rng.choice([length, -length - 1])
    if r < 0.8:
        return {'k': 'list', 'v': vals}
    out = {'k': 'imat', 'v': vals}
    if vals and rng.random() < 0.5:
        divs = [a for a in range(1, len(vals) + 1) if len(vals) % a == 0]
        a = rng.choice(divs)
        out['sh'] = [a, len(vals) // a]
    return out


# ----------------------------------------------------------------------------- the world

class World:
    def __init__(self):
        self.env = {}      # name -> {'X': object, 'D': dense twin, 'sparse': bool, 'mut': count}
        self.counter = 0

    def fresh(self):
        self.counter += 1
        return 'o%d' % self.counter

    def names(self, sparse=None, tc=None):
        out = []
        for k, e in self.env.items():
            if sparse is not None and e['sparse'] != sparse:
                continue
            if tc is not None and e['X'].typecode != tc:
                continue
            out.append(k)
        return sorted(out, key=lambda s: int(s[1:]))


def dense_of(X):
    from cvxopt import matrix
    return matrix(X)


def put(w, name, X):
    from cvxopt import spmatrix, matrix
    sp = isinstance(X, spmatrix)
    w.env[name] = {'X': X, 'D': dense_of(X) if sp else +X, 'sparse': sp, 'mut': 0}


# ----------------------------------------------------------------------------- operation generator (looks at the real state)

def gen_op(rng, w):
    from cvxopt import spmatrix
    sp = w.names(sparse=True)
    if not sp or (len(w.env) < 2 and rng.random() < 0.7) or (len(w.env) < 6 and rng.random() < 0.08):
        if sp and rng.random() < 0.3:
            e = w.env[rng.choice(sp)]['X']
            return ['new', w.fresh(), gen_dense(rng, rng.choice([e.size[0], e.size[1], 1]), rng.choice([e.size[1], e.size[0], 1]), e.typecode)]
        if sp and rng.random() < 0.4:
            e = w.env[rng.choice(sp)]['X']
            return ['new', w.fresh(), gen_sparse(rng, e.typecode, rng.choice([e.size[0], e.size[1]]), rng.choice([e.size[1], e.size[0]]))]
        return ['new', w.fresh(), gen_sparse(rng)]
    t = rng.choice(sp)
    X = w.env[t]['X']
    m, n = X.size
    tc = X.typecode
    if rng.random() < 0.06 and m > 0 and n > 0:
        return gen_reuse(rng, w, t)
    r = rng.random()
    if r < 0.30:
        return gen_setitem(rng, w, t)
    if r < 0.34:
        nnz = len(X)
        vtc = tc if rng.random() < 0.9 else rng.choice(['d', 'z'])
        vals = [rint(rng, vtc) for _ in range(nnz if rng.random() < 0.9 else nnz + 1)]
        if rng.random() < 0.2:
            return ['setV', t, {'k': 'num', 'v': rint(rng, vtc)}]      # every stored entry set to one number
        return ['setV', t, {'k': 'dense', 'm': len(vals), 'n': 1, 'tc': vtc, 'v': vals}]
    if r < 0.39:
        tot = m * n
        shapes = [(a, tot // a) for a in range(1, tot + 1) if tot % a == 0] if tot else [(0, rng.randint(0, 4)), (rng.randint(0, 4), 0)]
        sh = rng.choice(shapes) if rng.random() < 0.92 else (m + 1, n)
        return ['size', t, list(sh)]
    if r < 0.50:
        opn = rng.choice(['+=', '-=', '*=', '/='])
        if opn in ('+=', '-='):
            cands = [k for k in w.names(sparse=True) if w.env[k]['X'].size == X.size]
            if cands and rng.random() < 0.85:
                return ['iop', t, opn, {'k': 'ref', 'name': rng.choice(cands)}]
            if rng.random() < 0.5:
                return ['iop', t, opn, gen_sparse(rng, rng.choice([tc, tc, 'd', 'z']), m, n)]
            return ['iop', t, opn, {'k': 'num', 'v': rint(rng, 'd')}]
        if opn == '*=':
            return ['iop', t, opn, scalar_spec(rng, rint(rng, tc if rng.random() < 0.8 else 'z'))]
        return ['iop', t, opn, scalar_spec(rng, rng.choice([1.0, -1.0, 2.0, -2.0, 4.0, 0.5]))]
    if r < 0.57:
        # axpy(x, y): y := alpha*x + y, y = t
        cands = [k for k in w.names() if w.env[k]['X'].size == X.size and w.env[k]['X'].typecode == tc]
        xs = rng.choice(cands) if cands and rng.random() < 0.8 else None
        if xs is None:
            return ['new', w.fresh(), gen_sparse(rng, tc, m, n)]
        if rng.random() < 0.25:
            # the form the solvers use: sparse x added into a dense y
            y = w.fresh()
            return ['seq', ['new', y, gen_dense(rng, m, n, tc)], ['axpy', t, y, galpha(rng, tc), False]]
        return ['axpy', xs, t, galpha(rng, tc), bool(rng.random() < 0.35)]
    if r < 0.66:
        return gen_gemm(rng, w, t)
    if r < 0.72:
        return gen_syrk(rng, w, t)
    if r < 0.76:
        return gen_gemv(rng, w, t)
    if r < 0.97:
        return gen_derive(rng, w, t)
    if len(w.env) > 2:
        return ['del', rng.choice(list(w.env))]
    return gen_derive(rng, w, t)


def scalar_spec(rng, v):
    """a scalar operand as callers write it: a float or complex number, an int, or a 1x1 dense matrix"""
    r = rng.random()
    if r < 0.2 and not isinstance(v, list):
        return {'k': 'dense', 'm': 1, 'n': 1, 'tc': 'd', 'v': [v]}
    if r < 0.4 and not isinstance(v, list) and float(v) == int(v):
        return {'k': 'num', 'v': int(v)}
    return {'k': 'num', 'v': v}


def galpha(rng, tc, nonzero=False):
    """alpha / beta in the forms callers use: float, int, and complex for complex operands"""
    r = rng.random()
    if tc == 'z' and r < 0.35:
        return rint(rng, 'z', nonzero=nonzero)
    v = rint(rng, 'd', nonzero=nonzero)
    return int(v) if r > 0.8 else v


def gen_reuse(rng, w, t):
    """one object used as operand of a product, then mutated in place (values only, or pattern), then used in
    the same product again: the second result must reflect the mutation"""
    X = w.env[t]['X']
    m, n = X.size
    tc = X.typecode
    kind = rng.choice(['gemm', 'gemm', 'syrk']) if tc == 'd' else 'gemm'
    partial = bool(rng.random() < 0.7)
    ops = ['seq']
    if kind == 'gemm':
        tA = rng.choice(['N', 'N', 'T'])
        k = rng.randint(1, 4)
        rows = m if tA == 'N' else n
        inner = n if tA == 'N' else m
        b, c = w.fresh(), w.fresh()
        ops.append(['new', b, gen_sparse(rng, tc, inner, k) if rng.random() < 0.6 else gen_dense(rng, inner, k, tc)])
        ops.append(['new', c, gen_sparse(rng, tc, rows, k)])
        prod = ['gemm', t, b, c, tA, 'N', rint(rng, 'd', nonzero=True), rng.choice([0.0, 1.0]), partial]
    else:
        tr = rng.choice(['N', 'T'])
        order = m if tr == 'N' else n
        c = w.fresh()
        ops.append(['new', c, gen_sparse(rng, tc, order, order)])
        prod = ['syrk', t, c, tr, rint(rng, 'd', nonzero=True), rng.choice([0.0, 1.0]), partial]
    ops.append(prod)
    nnz = len(X)
    mut = rng.choice(['setV', 'scale', 'setitem', 'setitem'])
    if mut == 'setV' and nnz:
        ops.append(['setV', t, {'k': 'dense', 'm': nnz, 'n': 1, 'tc': tc, 'v': [rint(rng, tc, nonzero=True) for _ in range(nnz)]}])
    elif mut == 'scale':
        ops.append(['iop', t, '*=', {'k': 'num', 'v': rng.choice([2.0, -1.0, 3.0])}])
    else:
        ops.append(['set2', t, {'k': 'int', 'v': rng.randrange(m)}, {'k': 'int', 'v': rng.randrange(n)}, {'k': 'num', 'v': rint(rng, tc, nonzero=True)}])
    ops.append(list(prod))
    return ops


def gen_rhs(rng, tc, shape, allow_bad=True, scalar_lhs=False):
    """right-hand side for an indexed assignment whose left-hand side has `shape`"""
    m, n = shape
    r = rng.random()
    if r < 0.35 or scalar_lhs:
        if scalar_lhs and rng.random() < 0.3:
            return gen_dense(rng, 1, 1, tc)       # a 1x1 dense matrix is a scalar
        return {'k': 'num', 'v': rint(rng, tc if rng.random() < 0.9 else 'z')}
    if allow_bad and rng.random() < 0.05 and (m + 1, n) != (1, 1):
        m = m + 1
    if (m, n) == (1, 1) and r >= 0.65:
        r = 0.5         # whether a 1x1 *sparse* right-hand side counts as a scalar is not defined: use dense
    rtc = tc if rng.random() < 0.7 else rng.choice(['d', 'z', 'i'])
    if r < 0.45 and n == 1:
        # a plain sequence (list or tuple) on the right-hand side, documented for matrices of either kind
        vals = [rint(rng, 'd' if rtc == 'i' else rtc) for _ in range(m)]
        if rtc == 'i':
            vals = [int(v) for v in vals]
        return {'k': 'list', 'v': vals, 'form': rng.choice(['list', 'tuple'])}
    if r < 0.65:
        if rtc == 'i':
            return {'k': 'dense', 'm': m, 'n': n, 'tc': 'i', 'v': [rng.randint(-3, 3) for _ in range(m * n)]}
        return gen_dense(rng, m, n, rtc)
    if rtc == 'i':
        rtc = 'd'
    return gen_sparse(rng, rtc, m, n)


def idx_count(spec, length):
    """number of positions an index selects (None if the index is invalid / scalar)"""
    k = spec['k']
    if k == 'int':
        return None
    if k == 'slice':
        return len(range(*slice(*spec['v']).indices(length)))
    return len(spec['v'])


def gen_setitem(rng, w, t):
    X = w.env[t]['X']
    m, n = X.size
    tc = X.typecode
    if rng.random() < 0.45:
        idx = gen_index(rng, m * n)
        cnt = idx_count(idx, m * n)
        shape = (1, 1) if cnt is None else (cnt, 1)
        return ['set1', t, idx, gen_rhs(rng, tc, shape, scalar_lhs=cnt is None)]
    ii, jj = gen_index(rng, m), gen_index(rng, n)
    ci, cj = idx_count(ii, m), idx_count(jj, n)
    shape = (1 if ci is None else ci, 1 if cj is None else cj)
    return ['set2', t, ii, jj, gen_rhs(rng, tc, shape, scalar_lhs=(ci is None and cj is None))]


def gen_gemm(rng, w, t):
    X = w.env[t]['X']
    m, n = X.size
    tc = X.typecode
    trs = ['N', 'T'] + (['C'] if tc == 'z' else [])
    tA, tB = rng.choice(trs), rng.choice(trs)
    k = rng.randint(0, 4)
    ash = (m, k) if tA == 'N' else (k, m)
    bsh = (k, n) if tB == 'N' else (n, k)

    def operand(sh):
        cands = [q for q in w.names(tc=tc) if w.env[q]['X'].size == sh and q != t]
        if cands and rng.random() < 0.5:
            return None, rng.choice(cands)
        nm = w.fresh()
        spec = gen_sparse(rng, tc, sh[0], sh[1]) if rng.random() < 0.7 else gen_dense(rng, sh[0], sh[1], tc)
        return ['new', nm, spec], nm
    pre = []
    o1, a = operand(ash)
    if o1:
        pre.append(o1)
    o2, b = operand(bsh)
    if o2:
        pre.append(o2)
    alpha = galpha(rng, tc)
    beta = rng.choice([0.0, 1.0, float(rng.randint(-2, 2)), rng.randint(-2, 2)] + ([[0.0, 1.0]] if tc == 'z' else []))
    if rng.random() < 0.25:
        # dense result with sparse factors: the form the solvers call
        c = w.fresh()
        pre.append(['new', c, gen_dense(rng, m, n, tc)])
        return ['seq'] + pre + [['gemm', a, b, c, tA, tB, alpha, beta, False]]
    op = ['gemm', a, b, t, tA, tB, alpha, beta, bool(rng.random() < 0.5)]
    return ['seq'] + pre + [op] if pre else op


def gen_syrk(rng, w, t):
    X = w.env[t]['X']
    m, n = X.size
    tc = X.typecode
    if m != n:
        return gen_derive(rng, w, t)
    tr = rng.choice(['N', 'T'])
    k = rng.randint(0, 4)
    sh = (m, k) if tr == 'N' else (k, m)
    cands = [q for q in w.names(tc=tc) if w.env[q]['X'].size == sh and q != t]
    pre = []
    if cands and rng.random() < 0.5:
        a = rng.choice(cands)
    else:
        a = w.fresh()
        pre.append(['new', a, gen_sparse(rng, tc, sh[0], sh[1]) if rng.random() < 0.8 else gen_dense(rng, sh[0], sh[1], tc)])
    uplo = rng.choice(['L', 'L', 'U'])
    if rng.random() < 0.25:
        c = w.fresh()
        pre.append(['new', c, gen_dense(rng, m, m, tc)])
        return ['seq'] + pre + [['syrk', a, c, tr, galpha(rng, 'd'), rng.choice([0.0, 1.0, float(rng.randint(-2, 2))]), False, uplo]]
    op = ['syrk', a, t, tr, galpha(rng, 'd'), rng.choice([0.0, 1.0, float(rng.randint(-2, 2))]), bool(rng.random() < 0.5), uplo]
    return ['seq'] + pre + [op] if pre else op


def gen_gemv(rng, w, t):
    X = w.env[t]['X']
    m, n = X.size
    tc = X.typecode
    if rng.random() < 0.2 and m >= 1 and n >= 1:
        # symv on a square sub-block of A selected by n and offsetA (any triangle)
        k_ = rng.randint(1, min(m, n))
        oi, oj = rng.randint(0, m - k_), rng.randint(0, n - k_)
        x, y = w.fresh(), w.fresh()
        return ['seq', ['new', x, gen_dense(rng, k_, 1, tc)], ['new', y, gen_dense(rng, k_, 1, tc)],
                ['symv', t, x, y, galpha(rng, tc), rng.choice([0.0, 1.0, 2.0]), rng.choice(['L', 'U']), k_, oj * m + oi]]
    if rng.random() < 0.3 and m == n:
        x, y = w.fresh(), w.fresh()
        return ['seq', ['new', x, gen_dense(rng, n, 1, tc)], ['new', y, gen_dense(rng, m, 1, tc)],
                ['symv', t, x, y, galpha(rng, tc), rng.choice([0.0, 1.0, 2.0, 2]), rng.choice(['L', 'L', 'U'])]]
    tr = rng.choice(['N', 'T'] + (['C'] if tc == 'z' else []))
    xl, yl = (n, m) if tr == 'N' else (m, n)
    x, y = w.fresh(), w.fresh()
    return ['seq', ['new', x, gen_dense(rng, xl, 1, tc)], ['new', y, gen_dense(rng, yl, 1, tc)],
            ['gemv', t, x, y, tr, galpha(rng, tc), rng.choice([0.0, 1.0, 2.0, 2])]]


def gen_derive(rng, w, t):
    X = w.env[t]['X']
    m, n = X.size
    tc = X.typecode
    kind = rng.choice(['T', 'H', 'real', 'imag', 'abs', 'neg', 'pos', 'add', 'sub', 'mul', 'smul', 'sdiv', 'get1', 'get2', 'get2',
                       'sparse', 'spdiag', 'addnum', 'copy', 'dup', 'emul', 'blocks', 'sum', 'attrs', 'attrs',
                       'trans', 'ctrans', 'emax', 'emin', 'ediv', 'gblocks', 'gblocks', 'gdiag', 'ctor', 'ctor', 'rsubnum', 'mulnum',
                       'radd', 'rsub', 'rmul', 'sparse1'])
    nm = w.fresh()
    if kind in ('emax', 'emin', 'ediv'):
        if rng.random() < 0.3:
            return ['derive', nm, kind, t, {'k': 'num', 'v': rng.choice([1.0, -1.0, 2.0, 0.5, 0.0, -2.0] if kind != 'ediv' else [1.0, -1.0, 2.0, 0.5, 4.0])}]
        cands = [q for q in w.names() if w.env[q]['X'].size == X.size]
        if kind == 'ediv':
            # a dense divisor without zeros whose entries are exactly invertible
            cands = [q for q in cands if not w.env[q]['sparse'] and all(abs(v) in (1, 2, 4, 0.5) for v in w.env[q]['X'])]
            if not cands or rng.random() < 0.1:
                cands = [q for q in w.names() if w.env[q]['X'].size == X.size and w.env[q]['sparse']] or [t]
        return ['derive', nm, kind, t, {'k': 'ref', 'name': rng.choice(cands) if cands else t}]
    if kind == 'gblocks':
        # sparse() of a general list of block columns: sparse and dense matrices of the pool and numbers
        names = w.names()

        def block_col(width, height=None):
            cands = [q for q in names if w.env[q]['X'].size[1] == width]
            col, h = [], 0
            for _ in range(rng.randint(1, 3)):
                if width == 1 and rng.random() < 0.2:
                    col.append({'k': 'num', 'v': rint(rng, 'd')})
                    h += 1
                elif cands:
                    pick = rng.choice(cands)
                    if height is not None:
                        fit = [q for q in cands if w.env[q]['X'].size[0] == height - h]
                        if fit and rng.random() < 0.85:
                            pick = rng.choice(fit)
                    col.append({'k': 'ref', 'name': pick})
                    h += w.env[pick]['X'].size[0]
                if height is not None and h >= height:
                    break
            if not col:
                col, h = [{'k': 'ref', 'name': t}], m
            return col, h
        first, h = block_col(n)
        cols = [first]
        for _ in range(rng.choice([0, 0, 1, 1, 2])):
            c, _h = block_col(rng.choice([n, 1, w.env[rng.choice(names)]['X'].size[1]]), h)
            cols.append(c)
        return ['derive', nm, 'gblocks', t, cols, bool(rng.random() < 0.25 and len(cols) == 1), rng.choice([None, None, None, 'd', 'z'])]
    if kind == 'gdiag':
        items = []
        for _ in range(rng.randint(1, 3)):
            r_ = rng.random()
            if r_ < 0.3:
                items.append({'k': 'num', 'v': rint(rng, rng.choice(['d', 'd', 'z']))})
            else:
                sq = [q for q in w.names() if w.env[q]['X'].size[0] == w.env[q]['X'].size[1] or w.env[q]['X'].size[1] == 1]
                items.append({'k': 'ref', 'name': rng.choice(sq) if sq and rng.random() < 0.9 else rng.choice(w.names())})
        single = len(items) == 1 and items[0]['k'] == 'ref' and rng.random() < 0.5     # spdiag(x) with x a vector
        return ['derive', nm, 'gdiag', t, items, single]
    if kind == 'ctor':
        # the spmatrix constructor in its documented variants
        mm, nn = rng.randint(0, 4), rng.randint(0, 4)
        cnt = rng.randint(0, 6) if mm * nn else 0
        I = [rng.randrange(mm) for _ in range(cnt)]
        J = [rng.randrange(nn) for _ in range(cnt)]
        vt = rng.choice(['d', 'd', 'z', 'i'])
        form = rng.choice(['list', 'list', 'scalar', 'matrix', 'nosize', 'badlen', 'oor', 'neg', 'tc', 'tc_i', 'tuple', 'array', 'range'])
        V = [rint(rng, 'd' if vt == 'i' else vt) for _ in range(cnt)]
        if vt == 'i':
            V = [int(v) for v in V]
        if form == 'oor' and cnt:
            k_ = rng.randrange(cnt)
            if rng.random() < 0.5:
                I[k_] = mm
            else:
                J[k_] = nn
        if form == 'neg' and cnt:
            I[rng.randrange(cnt)] = -1
        return ['derive', nm, 'ctor', t, {'form': form, 'm': mm, 'n': nn, 'I': I, 'J': J, 'V': V, 'scalar': rint(rng, 'd'),
                                          'tc': rng.choice(['d', 'z'])}]
    if kind in ('rsubnum', 'mulnum'):
        return ['derive', nm, kind, t, scalar_spec(rng, rint(rng, tc if rng.random() < 0.8 else 'z'))]
    if kind in ('radd', 'rsub', 'rmul'):
        # a dense matrix as the left operand of a sparse one
        sh = (m, n) if kind != 'rmul' else (rng.randint(0, 3), m)
        ltc = rng.choice([tc, tc, 'd', 'i'])
        spec = gen_dense(rng, sh[0], sh[1], 'd' if ltc == 'i' else ltc)
        if ltc == 'i':
            spec = dict(spec, tc='i', v=[int(v) for v in spec['v']])
        return ['derive', nm, kind, t, spec]
    if kind == 'sparse1':
        return ['derive', nm, 'sparse1', t, rng.choice([None, None, 'd', 'z'])]
    if kind == 'dup':
        # triplets with repeated positions: the values are added
        mm, nn = rng.randint(1, 4), rng.randint(1, 4)
        cnt = rng.randint(0, 8)
        I = [rng.randrange(mm) for _ in range(cnt)]
        J = [rng.randrange(nn) for _ in range(cnt)]
        return ['derive', nm, 'dup', t, {'k': 'sparse', 'm': mm, 'n': nn, 'I': I, 'J': J, 'V': [rint(rng, tc) for _ in range(cnt)], 'tc': tc}]
    if kind in ('emul', 'blocks'):
        cands = [q for q in w.names() if w.env[q]['X'].size == X.size]
        return ['derive', nm, kind, t, rng.choice(cands) if cands else t]
    if kind in ('add', 'sub'):
        if rng.random() < 0.3:
            # a dense operand of its own typecode (integer, or real with a complex sparse matrix): the result is promoted
            o_ = w.fresh()
            otc = rng.choice(['i', 'd', 'z'])
            spec = gen_dense(rng, m, n, 'd' if otc == 'i' else otc)
            if otc == 'i':
                spec = dict(spec, tc='i', v=[int(v) for v in spec['v']])
            return ['seq', ['new', o_, spec], ['derive', nm, kind, t, o_]]
        cands = [q for q in w.names() if w.env[q]['X'].size == X.size]
        other = rng.choice(cands) if cands else t
        return ['derive', nm, kind, t, other]
    if kind == 'mul':
        cands = [q for q in w.names() if w.env[q]['X'].size[0] == n]
        if not cands:
            return ['derive', nm, 'T', t]
        return ['derive', nm, 'mul', t, rng.choice(cands)]
    if kind in ('smul', 'sdiv', 'addnum'):
        v = rint(rng, tc if rng.random() < 0.8 else 'z', nonzero=(kind == 'sdiv'))
        if kind == 'sdiv':
            v = rng.choice([1.0, -1.0, 2.0, -2.0, 0.5, 4.0, 2, -1])
        return ['derive', nm, kind, t, scalar_spec(rng, v)]
    if kind == 'get1':
        return ['derive', nm, 'get1', t, gen_index(rng, m * n, for_assign=False)]
    if kind == 'get2':
        return ['derive', nm, 'get2', t, gen_index(rng, m, for_assign=False), gen_index(rng, n, for_assign=False)]
    if kind == 'spdiag':
        return ['derive', nm, 'spdiag', t]
    return ['derive', nm, kind, t]


# ----------------------------------------------------------------------------- applying one operation to both sides

class Mismatch(Exception):
    def __init__(self, oracle, detail, **sig):
        Exception.__init__(self, detail)
        self.oracle, self.detail, self.sig = oracle, detail, sig


def builtins_max_abs(vals):
    m = 0.0
    for v in vals:
        if abs(v) > m:
            m = abs(v)
    return m


def both(opname, fs, fd, **extra):
    """run the sparse-side and the dense-side action; compare refusal behaviour"""
    es = ed = None
    rs = rd = None
    try:
        rs = fs()
    except (TypeError, ValueError, IndexError, ArithmeticError, OverflowError) as e:
        es = e
    except Exception as e:      # noqa — e.g. MemoryError/SystemError from a small operation
        raise Mismatch('undocumented-exception', '%s: sparse side raised %s(%s)' % (opname, type(e).__name__, e), op=opname,
                       sparse_exc=type(e).__name__)
    try:
        rd = fd()
    except (TypeError, ValueError, IndexError, ArithmeticError, OverflowError) as e:
        ed = e
    if (es is None) != (ed is None):
        raise Mismatch('refusal-differs', '%s: sparse side %s, dense side %s' %
                       (opname, 'raised %s(%s)' % (type(es).__name__, es) if es else 'succeeded',
                        'raised %s(%s)' % (type(ed).__name__, ed) if ed else 'succeeded'), op=opname,
                       sparse_exc=type(es).__name__ if es else None, dense_exc=type(ed).__name__ if ed else None, **extra)
    # both sides refuse: which of several applicable documented errors is reported first is not defined
    return rs, rd, es is not None


def _conj(v, t):
    return v.conjugate() if (t == 'C' and isinstance(v, complex)) else v


def _opget(A, t, i, j):
    return A[i, j] if t == 'N' else _conj(A[j, i], t)


def ref_gemm(A, B, C, tA, tB, alpha, beta):
    m, n = C.size
    am, an = A.size if tA == 'N' else (A.size[1], A.size[0])
    bm, bn = B.size if tB == 'N' else (B.size[1], B.size[0])
    if am != m or bn != n or an != bm:
        raise TypeError('dimensions')
    if A.typecode != C.typecode or B.typecode != C.typecode or A.typecode == 'i':
        raise TypeError('types')
    k = an
    out = []
    for j in range(n):
        for i in range(m):
            acc = 0
            for l in range(k):
                acc += _opget(A, tA, i, l) * _opget(B, tB, l, j)
            out.append(alpha * acc + (beta * C[i, j] if beta != 0 else 0))
    for idx, v in enumerate(out):
        C[idx] = v


def ref_syrk_lower(A, C, tr, alpha, beta, uplo='L'):
    n = C.size[0]
    an, ak = A.size if tr == 'N' else (A.size[1], A.size[0])
    if C.size[0] != C.size[1] or an != n:
        raise TypeError('dimensions')
    if A.typecode != C.typecode or A.typecode == 'i':
        raise TypeError('types')
    out = {}
    for j in range(n):
        for i in (range(j, n) if uplo == 'L' else range(0, j + 1)):
            acc = 0
            for l in range(ak):
                acc += (A[i, l] * A[j, l]) if tr == 'N' else (A[l, i] * A[l, j])
            out[(i, j)] = alpha * acc + (beta * C[i, j] if beta != 0 else 0)
    for (i, j), v in out.items():
        C[i, j] = v


def ref_gemv(A, x, y, tr, alpha, beta):
    m, n = A.size
    xl, yl = (n, m) if tr == 'N' else (m, n)
    if x.size != (xl, 1) or y.size != (yl, 1):
        raise TypeError('dimensions')
    if A.typecode != x.typecode or A.typecode != y.typecode or A.typecode == 'i':
        raise TypeError('types')
    out = []
    for i in range(yl):
        acc = 0
        for l in range(xl):
            acc += (A[i, l] if tr == 'N' else _conj(A[l, i], tr)) * x[l]
        out.append(alpha * acc + (beta * y[i] if beta != 0 else 0))
    for i, v in enumerate(out):
        y[i] = v


def ref_symv_lower(A, x, y, alpha, beta, uplo='L'):
    n = A.size[0]
    if A.size[0] != A.size[1] or x.size != (n, 1) or y.size != (n, 1):
        raise TypeError('dimensions')
    if A.typecode != x.typecode or A.typecode != y.typecode or A.typecode == 'i':
        raise TypeError('types')
    out = []
    for i in range(n):
        acc = 0
        for l in range(n):
            acc += (A[i, l] if ((i >= l) == (uplo == 'L') or i == l) else A[l, i]) * x[l]
        out.append(alpha * acc + (beta * y[i] if beta != 0 else 0))
    for i, v in enumerate(out):
        y[i] = v


def tri_lower_equal(A, B, uplo='L'):
    m, n = A.size
    for j in range(n):
        for i in (range(j, m) if uplo == 'L' else range(0, min(j + 1, m))):
            if A[i, j] != B[i, j]:
                return False
    return True


def apply(op, w, stats):
    from cvxopt import matrix, spmatrix, sparse, spdiag, base, blas
    kind = op[0]
    env = w.env

    def bump(k):
        stats[k] = stats.get(k, 0) + 1

    if kind == 'seq':
        if sum(1 for sub in op[1:] if sub[0] in ('gemm', 'syrk')) >= 2:
            bump('probe.product_repeated_into_the_same_result_object')
        for sub in op[1:]:
            apply(sub, w, stats)
        return
    bump('op.' + kind + ('.' + op[2] if kind in ('derive', 'iop') else ''))
    if kind == 'new':
        put(w, op[1], mk(op[2]))
        return
    if kind == 'del':
        env.pop(op[1], None)
        return
    missing = [a for a in op[1:] if isinstance(a, str) and a.startswith('o') and a[1:].isdigit() and a not in env]
    if kind == 'derive':
        missing = [a for a in op[3:] if isinstance(a, str) and a.startswith('o') and a[1:].isdigit() and a not in env]
    if kind == 'derive':
        def refs_in(o):
            if isinstance(o, dict):
                return [o['name']] if o.get('k') == 'ref' else []
            if isinstance(o, list):
                return [r for x in o for r in refs_in(x)]
            return []
        missing += [a for a in refs_in(op[4:]) if a not in env]
    if missing:
        return          # shrinking removed the operand
    if kind in ('set1', 'set2'):
        e = env[op[1]]
        X, D = e['X'], e['D']
        rhs_spec = op[-1]
        rhs = mk(rhs_spec)
        rhs_d = matrix(rhs) if isinstance(rhs, spmatrix) else rhs
        if kind == 'set1':
            ix = mkidx(op[2])

            def fs():
                X[ix] = rhs

            def fd():
                D[mkidx(op[2])] = rhs_d
        else:
            ii, jj = mkidx(op[2]), mkidx(op[3])

            def fs():
                X[ii, jj] = rhs

            def fd():
                D[mkidx(op[2]), mkidx(op[3])] = rhs_d
        _, _, refused = both(kind, fs, fd)
        e['mut'] += 0 if refused else 1
        if refused:
            bump('refused')
        return
    if kind == 'setV':
        e = env[op[1]]
        X = e['X']
        val = mk(op[2])

        def fs():
            X.V = val
        try:
            fs()
        except (TypeError, ValueError) as ex:
            # refused: wrong length or a type that would change the typecode — nothing may have changed
            bump('refused')
            return
        scalar = not isinstance(val, matrix)
        if not scalar and val.size[0] != len(X):
            raise Mismatch('refusal-missing', 'V assignment of length %d accepted for %d entries' % (val.size[0], len(X)), op=kind)
        if scalar and isinstance(val, complex) and X.typecode == 'd':
            raise Mismatch('refusal-missing', 'a complex number was accepted as V of a real sparse matrix', op=kind)
        # twin: same pattern, new values
        I, J = X.I, X.J
        D = matrix(0, X.size, X.typecode)
        for k in range(len(I)):
            D[I[k], J[k]] = val if scalar else val[k]
        e['D'] = D
        e['mut'] += 1
        return
    if kind == 'size':
        e = env[op[1]]
        X, D = e['X'], e['D']
        sh = tuple(op[2])

        def fs():
            X.size = sh

        def fd():
            D.size = sh
        _, _, refused = both(kind, fs, fd)
        e['mut'] += 0 if refused else 1
        return
    if kind == 'iop':
        e = env[op[1]]
        X, D = e['X'], e['D']
        opn, arg = op[2], op[3]
        if arg['k'] == 'ref':
            if arg['name'] not in env:
                return
            other = env[arg['name']]['X']
            other_d = env[arg['name']]['D']
        else:
            other = mk(arg)
            other_d = matrix(other) if isinstance(other, spmatrix) else other
        scalar = not isinstance(other, (matrix, spmatrix))
        # documented rule: in-place operations are allowed exactly when the type (sparse/dense, typecode) would not change
        would_change = False
        if opn in ('+=', '-='):
            if scalar or not isinstance(other, spmatrix):
                would_change = True            # sparse +- dense/number is dense
            elif other.typecode == 'z' and X.typecode == 'd':
                would_change = True
        else:
            if isinstance(other, complex) and X.typecode == 'd':
                would_change = True
        before = O.bits(X)

        def fs():
            if opn == '+=':
                X.__iadd__(other)
            elif opn == '-=':
                X.__isub__(other)
            elif opn == '*=':
                X.__imul__(other)
            else:
                X.__itruediv__(other)
        if would_change:
            try:
                fs()
            except TypeError:
                bump('refused')
                if O.bits(X) != before:
                    raise Mismatch('refused-op-changed-object', 'refused in-place %s changed the matrix' % opn, op=kind)
                return
            raise Mismatch('refusal-missing', 'in-place %s that would change the type was accepted' % opn, op=kind, inplace=opn)

        def fd():
            if opn == '+=':
                D.__iadd__(other_d)
            elif opn == '-=':
                D.__isub__(other_d)
            elif opn == '*=':
                D.__imul__(other_d)
            else:
                D.__itruediv__(other_d)
        _, _, refused = both(kind + opn, fs, fd)
        e['mut'] += 0 if refused else 1
        return
    if kind == 'axpy':
        x, y = env[op[1]], env[op[2]]
        alpha = num(op[3])
        partial = bool(op[4]) if len(op) > 4 else False
        Xd = x['D'] if x['sparse'] else x['X']
        Y = y['X']
        pattern = set(zip(Y.I, Y.J)) if (partial and y['sparse']) else None

        def fs():
            if partial:
                base.axpy(x['X'], Y, alpha, partial=True)
            else:
                base.axpy(x['X'], Y, alpha)

        def fd():
            if Xd.size != y['D'].size or Xd.typecode != y['D'].typecode:
                raise TypeError('dimensions')
            if isinstance(alpha, complex) and Xd.typecode != 'z':
                raise TypeError('complex alpha for real operands')
            vals = [alpha * Xd[i] + y['D'][i] for i in range(len(Xd))]
            for i, v in enumerate(vals):
                y['D'][i] = v
        _, _, refused = both(kind, fs, fd)
        if not refused and pattern is not None:
            bump('probe.axpy_partial_on_existing_pattern')
            D = y['D']
            for j in range(D.size[1]):
                for i in range(D.size[0]):
                    if (i, j) not in pattern:
                        D[i, j] = 0
            if set(zip(Y.I, Y.J)) != pattern:
                raise Mismatch('partial-changed-pattern', 'axpy(partial=True) changed the sparsity pattern of y', op=kind)
        if not refused and not y['sparse']:
            bump('probe.sparse_operand_into_dense_result')
        y['mut'] += 0 if refused else 1
        return
    if kind == 'gemm':
        a, b, c = env[op[1]], env[op[2]], env[op[3]]
        tA, tB, alpha, beta, partial = op[4], op[5], num(op[6]), num(op[7]), op[8]
        C = c['X']
        partial = partial and c['sparse']
        pattern = set(zip(C.I, C.J)) if partial else None
        if not c['sparse']:
            bump('probe.sparse_operand_into_dense_result')
        Ad = a['D'] if a['sparse'] else a['X']
        Bd = b['D'] if b['sparse'] else b['X']

        def fs():
            base.gemm(a['X'], b['X'], C, tA, tB, alpha, beta, partial)

        def fd():
            ref_gemm(Ad, Bd, c['D'], tA, tB, alpha, beta)
        _, _, refused = both(kind, fs, fd)
        if not refused and partial:
            bump('probe.gemm_partial_on_existing_pattern')
            # only the existing pattern of C is computed: project the twin
            D = c['D']
            for j in range(D.size[1]):
                for i in range(D.size[0]):
                    if (i, j) not in pattern:
                        D[i, j] = 0
            if set(zip(C.I, C.J)) != pattern:
                raise Mismatch('partial-changed-pattern', 'gemm(partial=True) changed the sparsity pattern of C', op=kind)
        c['mut'] += 0 if refused else 1
        return
    if kind == 'syrk':
        a, c = env[op[1]], env[op[2]]
        tr, alpha, beta, partial = op[3], num(op[4]), num(op[5]), op[6]
        uplo = op[7] if len(op) > 7 else 'L'
        C = c['X']
        partial = partial and c['sparse']
        pattern = set(zip(C.I, C.J)) if partial else None
        Ad = a['D'] if a['sparse'] else a['X']
        if not c['sparse']:
            bump('probe.sparse_operand_into_dense_result')

        def fs():
            base.syrk(a['X'], C, uplo, tr, alpha, beta, partial)

        def fd():
            ref_syrk_lower(Ad, c['D'], tr, alpha, beta, uplo)
        _, _, refused = both(kind, fs, fd, tc=C.typecode)
        if not refused:
            D = c['D']
            Cd = matrix(C)
            if partial:
                bump('probe.syrk_partial_on_existing_pattern')
                for j in range(D.size[1]):
                    for i in (range(j, D.size[0]) if uplo == 'L' else range(0, j + 1)):
                        if (i, j) not in pattern:
                            D[i, j] = 0
                if set(zip(C.I, C.J)) != pattern:
                    raise Mismatch('partial-changed-pattern', 'syrk(partial=True) changed the sparsity pattern of C', op=kind)
            if not tri_lower_equal(Cd, D, uplo):
                raise Mismatch('twin-differs', 'syrk: the %s triangle of C differs from the dense computation' % ('lower' if uplo == 'L' else 'upper'),
                               op=kind, partial=partial, uplo=uplo)
            c['D'] = Cd          # the strictly upper triangle is not referenced: resynchronise
        c['mut'] += 0 if refused else 1
        return
    if kind in ('gemv', 'symv'):
        a, x, y = env[op[1]], env[op[2]], env[op[3]]
        Ad = a['D']
        if kind == 'gemv':
            tr, alpha, beta = op[4], num(op[5]), num(op[6])

            def fs():
                base.gemv(a['X'], x['X'], y['X'], tr, alpha, beta)

            def fd():
                ref_gemv(Ad, x['D'], y['D'], tr, alpha, beta)
        else:
            alpha, beta = num(op[4]), num(op[5])
            uplo = op[6] if len(op) > 6 else 'L'
            if len(op) > 8:
                nsub, oA = op[7], op[8]
                mA = Ad.size[0]
                oi, oj = (oA % mA, oA // mA) if mA else (0, 0)
                if oi + nsub > Ad.size[0] or oj + nsub > Ad.size[1]:
                    return          # the object was resized by an earlier step of a shrunk history

                def fs():
                    base.symv(a['X'], x['X'], y['X'], uplo, alpha, beta, n=nsub, offsetA=oA)

                def fd():
                    ref_symv_lower(matrix(Ad[oi:oi + nsub, oj:oj + nsub]), x['D'], y['D'], alpha, beta, uplo)
                bump('probe.symv_on_sub_block')
            else:
                def fs():
                    base.symv(a['X'], x['X'], y['X'], uplo, alpha, beta)

                def fd():
                    ref_symv_lower(Ad, x['D'], y['D'], alpha, beta, uplo)
        both(kind, fs, fd)
        return
    if kind == 'derive':
        nm, dk, src = op[1], op[2], op[3]
        e = env[src]
        X, D = e['X'], e['D']
        expect_sparse = True
        if dk == 'T':
            fs, fd = (lambda: X.T), (lambda: D.T)
        elif dk == 'H':
            fs, fd = (lambda: X.H), (lambda: D.H)
        elif dk == 'real':
            fs, fd = (lambda: X.real()), (lambda: D.real())
        elif dk == 'imag':
            fs, fd = (lambda: X.imag()), (lambda: D.imag())
        elif dk == 'abs':
            fs, fd = (lambda: abs(X)), (lambda: abs(D))
        elif dk == 'neg':
            fs, fd = (lambda: -X), (lambda: -D)
        elif dk == 'pos':
            fs, fd = (lambda: +X), (lambda: +D)
        elif dk == 'copy':
            fs, fd = (lambda: spmatrix(X.V, X.I, X.J, X.size, X.typecode)), (lambda: +D)
        elif dk == 'dup':
            spec = op[4]

            def fs():
                return spmatrix([num(x) for x in spec['V']], spec['I'], spec['J'], (spec['m'], spec['n']), spec['tc'])

            def fd():
                R = matrix(0, (spec['m'], spec['n']), spec['tc'])
                for i, j, v in zip(spec['I'], spec['J'], spec['V']):
                    R[i, j] += num(v)
                return R
        elif dk == 'attrs':
            # the read-only views of one object must agree with each other and with the dense image:
            # len() = number of stored entries, I/J/V = the triplets in column-major order, iteration = V,
            # bool() = "not a zero matrix", max()/min() over the stored entries, `in` over the stored values
            import cvxopt
            I, J, Vv = list(X.I), list(X.J), list(X.V)
            if not (len(X) == len(I) == len(J) == len(Vv)):
                raise Mismatch('attributes-inconsistent', 'len()=%d, len(I)=%d, len(J)=%d, len(V)=%d' % (len(X), len(I), len(J), len(Vv)), op='derive.attrs')
            if sorted(zip(J, I)) != list(zip(J, I)) or len(set(zip(J, I))) != len(I):
                raise Mismatch('attributes-inconsistent', 'I, J are not in strict column-major order', op='derive.attrs')
            for i_, j_, v_ in zip(I, J, Vv):
                if D[i_, j_] != v_:
                    raise Mismatch('attributes-inconsistent', 'V entry for (%d,%d) is %r, the matrix has %r there' % (i_, j_, v_, D[i_, j_]), op='derive.attrs')
            if list(X) != Vv:
                raise Mismatch('attributes-inconsistent', 'iteration yields %r, V is %r' % (list(X)[:6], Vv[:6]), op='derive.attrs')
            if bool(X) != any(v != 0 for v in D):
                raise Mismatch('attributes-inconsistent', 'bool() = %r for a matrix that is %sa zero matrix' % (bool(X), '' if not any(v != 0 for v in D) else 'not '), op='derive.attrs')
            if X.typecode == 'd' and Vv:
                # Python's max()/min() run over the stored entries, cvxopt.max()/min() over the whole (dense) matrix
                import builtins
                if builtins.max(X) != builtins.max(Vv) or builtins.min(X) != builtins.min(Vv):
                    raise Mismatch('attributes-inconsistent', 'builtin max/min over the matrix differ from those over V', op='derive.attrs')
                if cvxopt.max(X) != builtins.max(D) or cvxopt.min(X) != builtins.min(D):
                    raise Mismatch('attributes-inconsistent', 'cvxopt.max/min = %r/%r, the dense image has %r/%r' %
                                   (cvxopt.max(X), cvxopt.min(X), builtins.max(D), builtins.min(D)), op='derive.attrs')
            probe = Vv[0] if Vv else 7.0
            absent = 1.5 + builtins_max_abs(Vv)
            if (probe in X) != (probe in Vv) or (absent in X):
                raise Mismatch('attributes-inconsistent', "'in' disagrees with the stored values", op='derive.attrs')
            return
        elif dk == 'sum':
            fs, fd = (lambda: sum(X)), (lambda: sum(D))
            expect_sparse = False
        elif dk in ('emul', 'blocks'):
            import cvxopt
            o = env[op[4]]
            Y, Yd = o['X'], (o['D'] if o['sparse'] else o['X'])
            if dk == 'emul':
                fs, fd = (lambda: cvxopt.mul(X, Y)), (lambda: cvxopt.mul(D, Yd))
            else:
                fs, fd = (lambda: sparse([[X, Y], [Y, X]])), (lambda: matrix([[D, Yd], [Yd, D]]))
        elif dk in ('add', 'sub', 'mul'):
            o = env[op[4]]
            Y, Yd = o['X'], (o['D'] if o['sparse'] else o['X'])
            expect_sparse = o['sparse']
            if dk == 'add':
                fs, fd = (lambda: X + Y), (lambda: D + Yd)
            elif dk == 'sub':
                fs, fd = (lambda: X - Y), (lambda: D - Yd)
            else:
                fs, fd = (lambda: X * Y), (lambda: D * Yd)
                if not o['sparse'] and Y.size == (1, 1) and X.size[1] != 1:
                    expect_sparse = True       # 1x1 dense that cannot be a matrix product: scalar multiplication
        elif dk in ('smul', 'sdiv', 'addnum'):
            v = mk(op[4])
            if dk == 'smul':
                fs, fd = (lambda: v * X), (lambda: v * D)
                if isinstance(v, matrix) and X.size[0] == 1:
                    expect_sparse = False       # (1x1 dense) * (1 x n sparse) is a matrix product: dense
            elif dk == 'sdiv':
                fs, fd = (lambda: X / v), (lambda: D / v)
            else:
                fs, fd = (lambda: X + v), (lambda: D + v)
                expect_sparse = False
        elif dk == 'get1':
            fs, fd = (lambda: X[mkidx(op[4])]), (lambda: D[mkidx(op[4])])
            expect_sparse = op[4]['k'] != 'int'
        elif dk == 'get2':
            fs, fd = (lambda: X[mkidx(op[4]), mkidx(op[5])]), (lambda: D[mkidx(op[4]), mkidx(op[5])])
            expect_sparse = not (op[4]['k'] == 'int' and op[5]['k'] == 'int')
        elif dk == 'trans':
            fs, fd = (lambda: X.trans()), (lambda: D.trans())
        elif dk == 'ctrans':
            fs, fd = (lambda: X.ctrans()), (lambda: D.ctrans())
        elif dk in ('emax', 'emin', 'ediv'):
            import cvxopt
            if op[4]['k'] == 'num':
                Y = Yd = mk(op[4])
                other_sparse = False
            else:
                o = env[op[4]['name']]
                Y, Yd = o['X'], (o['D'] if o['sparse'] else o['X'])
                other_sparse = o['sparse']
            if X.typecode == 'z' or getattr(Y, 'typecode', 'd') == 'z' or isinstance(Y, complex):
                return        # no order on complex numbers; complex quotients are not exact
            f = {'emax': cvxopt.max, 'emin': cvxopt.min, 'ediv': cvxopt.div}[dk]
            fs, fd = (lambda: f(X, Y)), (lambda: f(D, Yd))
            # max/min of two sparse matrices is sparse, with a dense matrix or a number dense; the quotient
            # of a sparse matrix by a dense matrix or a number is sparse (division by a sparse matrix is refused)
            expect_sparse = other_sparse if dk != 'ediv' else True
            if dk == 'ediv' and other_sparse:
                def fd():       # noqa
                    raise TypeError('elementwise division with sparse matrix')
        elif dk == 'gblocks':
            cols, flat, tcx = op[4], op[5], op[6]
            rc, dc = [], []
            for col in cols:
                a, b = [], []
                for it in col:
                    if it['k'] == 'num':
                        a.append(mk(it))
                        b.append(mk(it))
                    else:
                        o = env[it['name']]
                        a.append(o['X'])
                        b.append(o['D'] if o['sparse'] else o['X'])
                rc.append(a)
                dc.append(b)
            if flat and all(not isinstance(x, (matrix, spmatrix)) for x in rc[0]):
                return
            kw = {'tc': tcx} if tcx is not None else {}
            # the dense image is built with the dense constructor; an all-'i' image cannot arise (sparse is d or z)
            fs = (lambda: sparse(rc[0] if flat else rc, **kw))

            def fd():
                R = matrix(dc[0] if flat else dc, **kw)
                return matrix(R, tc='d') if R.typecode == 'i' else R
        elif dk == 'gdiag':
            items, single = op[4], op[5]
            ra, da = [], []
            for it in items:
                if it['k'] == 'num':
                    ra.append(mk(it))
                    da.append(mk(it))
                else:
                    o = env[it['name']]
                    ra.append(o['X'])
                    da.append(o['D'] if o['sparse'] else o['X'])
            if single and da[0].size[0] * da[0].size[1] == 0:
                return        # spdiag of an empty vector: not specified (refused; spdiag([]) is 0x0)
            fs = (lambda: spdiag(ra[0] if single else ra))

            def fd():
                # the documented meaning, in plain Python: a vector argument is a list of its entries;
                # list items are numbers or square matrices placed along the diagonal
                isvec = single and isinstance(da[0], matrix) and 1 in da[0].size      # a single row or column
                blocks_ = list(da[0]) if isvec else ([da[0]] if single else da)
                if single and not isvec:
                    raise TypeError('spdiag of a single non-vector argument')
                tcr = 'd'
                k = 0
                for b in blocks_:
                    if isinstance(b, matrix):
                        if b.size[0] != b.size[1]:
                            raise TypeError('the elements in diag must be square')
                        k += b.size[0]
                        if b.typecode == 'z':
                            tcr = 'z'
                    else:
                        k += 1
                        if isinstance(b, complex):
                            tcr = 'z'
                R = matrix(0, (k, k), tcr)
                k = 0
                for b in blocks_:
                    if isinstance(b, matrix):
                        R[k:k + b.size[0], k:k + b.size[0]] = b
                        k += b.size[0]
                    else:
                        R[k, k] = b
                        k += 1
                return R
        elif dk == 'ctor':
            c = op[4]
            form, mm, nn = c['form'], c['m'], c['n']
            I, J, V = list(c['I']), list(c['J']), [num(v) for v in c['V']]
            size = (mm, nn)
            kwt = {}
            if form == 'scalar':
                Varg = num(c['scalar'])
                V = [Varg] * len(I)
            elif form == 'matrix':
                Varg = matrix(V, (len(V), 1), 'z' if any(isinstance(v, complex) for v in V) else 'd') if V else V
                I, J = (matrix(I, (len(I), 1), 'i') if I else I), (matrix(J, (len(J), 1), 'i') if J else J)
            elif form == 'tuple':
                Varg, I, J = tuple(V), tuple(I), tuple(J)
            elif form == 'array' and not any(isinstance(v, complex) for v in V):
                import array as _array
                Varg, I, J = _array.array('d', [float(v) for v in V]), _array.array('l', I), _array.array('l', J)
            elif form == 'range' and len(I):
                # consecutive positions down one column
                k_ = min(len(I), mm)
                I, J, V = list(range(k_)), [0] * k_, V[:k_]
                Varg, I = V, range(k_)
            else:
                Varg = V
            if form == 'badlen' and len(I):
                I = list(I)[:-1]
            if form in ('tc', 'tc_i'):
                kwt = {'tc': c['tc'] if form == 'tc' else 'i'}

            def fs():
                if form == 'nosize':
                    return spmatrix(Varg, I, J, **kwt)
                return spmatrix(Varg, I, J, size, **kwt)

            def fd():
                Il, Jl = list(I), list(J)
                if len(Il) != len(Jl) or (form != 'scalar' and len(V) != len(Il)):
                    raise TypeError('I, J, V must have the same length')
                if kwt.get('tc') == 'i':
                    raise TypeError("tc must be 'd' or 'z'")
                m_, n_ = size if form != 'nosize' else ((max(Il) + 1 if Il else 0), (max(Jl) + 1 if Jl else 0))
                if any(i < 0 or i >= m_ for i in Il) or any(j < 0 or j >= n_ for j in Jl):
                    raise TypeError('index out of range')
                tcr = kwt.get('tc') or ('z' if any(isinstance(v, complex) for v in V) else 'd')
                if tcr == 'd' and any(isinstance(v, complex) for v in V):
                    raise TypeError('cannot cast')
                R = matrix(0, (m_, n_), tcr)
                for i, j, v in zip(Il, Jl, V):
                    R[i, j] += v
                return R
        elif dk in ('radd', 'rsub', 'rmul'):
            L = mk(op[4])
            expect_sparse = False
            if dk == 'radd':
                fs, fd = (lambda: L + X), (lambda: L + D)
            elif dk == 'rsub':
                fs, fd = (lambda: L - X), (lambda: L - D)
            else:
                fs, fd = (lambda: L * X), (lambda: L * D)
        elif dk == 'sparse1':
            tcx = op[4]
            if tcx and X.size[0] * X.size[1] == 0:
                return      # type conversion of an empty matrix: the dense constructor is lenient, nothing to compare
            kw = {'tc': tcx} if tcx else {}
            fs = (lambda: sparse(X, **kw))

            def fd():
                R = matrix(D, **kw)
                return R
        elif dk in ('rsubnum', 'mulnum'):
            v = mk(op[4])
            if dk == 'rsubnum':
                fs, fd = (lambda: v - X), (lambda: v - D)
                expect_sparse = False
            else:
                fs, fd = (lambda: X * v), (lambda: D * v)
                if isinstance(v, matrix) and X.size[1] == 1:
                    expect_sparse = False       # (m x 1 sparse) * (1x1 dense) is a matrix product: dense
        elif dk == 'sparse':
            fs, fd = (lambda: sparse([[X, X], [X, X]]) if X.size[0] * X.size[1] else sparse(X)), \
                     (lambda: matrix([[D, D], [D, D]]) if D.size[0] * D.size[1] else +D)
        elif dk == 'spdiag':
            if X.size[0] == X.size[1] and X.size[0] > 0:
                def fs():
                    return spdiag([X, 2.0])

                def fd():
                    k = D.size[0]
                    R = matrix(0, (k + 1, k + 1), D.typecode)
                    R[:k, :k] = D
                    R[k, k] = 2.0
                    return R
            else:
                fs, fd = (lambda: +X), (lambda: +D)
        else:
            raise ValueError(dk)
        rs, rd, refused = both('derive.' + dk, fs, fd)
        if refused:
            bump('refused')
            return
        if dk == 'abs' and X.typecode == 'z':
            # moduli of complex numbers are not exactly representable: compare with a tolerance and do not
            # let the inexact values enter the pool
            if not isinstance(rs, spmatrix) or rs.typecode != 'd' or rs.size != rd.size:
                raise Mismatch('result-class', 'abs of a complex sparse matrix returned %s/%s' % (type(rs).__name__, getattr(rs, 'typecode', None)), op='derive.abs')
            bad = O.ccs_valid(rs)
            if bad:
                raise Mismatch('ccs-invalid', 'abs: %s' % bad, op='derive.abs')
            rsd = matrix(rs)
            if any(abs(rsd[i] - rd[i]) > 1e-12 * (1 + abs(rd[i])) for i in range(len(rd))):
                raise Mismatch('twin-differs', 'abs of a complex sparse matrix differs from the dense computation', op='derive.abs')
            return
        if dk == 'sparse1' and isinstance(rs, spmatrix) and any(v == 0 for v in rs.V):
            raise Mismatch('stored-zero-kept', 'sparse(x) kept a numerically zero entry (documented: zeros are removed)', op='derive.sparse1')
        if isinstance(rs, (matrix, spmatrix)):
            if isinstance(rs, spmatrix) != expect_sparse:
                raise Mismatch('result-class', '%s returned %s, documented result is %s' %
                               (dk, type(rs).__name__, 'sparse' if expect_sparse else 'dense'), op='derive.' + dk)
            if not isinstance(rd, matrix):
                raise Mismatch('result-class', '%s: sparse side returned a matrix, dense side %r' % (dk, type(rd).__name__), op='derive.' + dk)
            if rs.typecode != rd.typecode and not (rd.typecode == 'i'):
                raise Mismatch('result-typecode', '%s: typecode %s, dense computation gives %s' % (dk, rs.typecode, rd.typecode), op='derive.' + dk)
            if rs is X:
                raise Mismatch('not-a-new-object', '%s returned its operand' % dk, op='derive.' + dk)
            w.env[nm] = {'X': rs, 'D': rd if isinstance(rs, spmatrix) else +rs, 'sparse': isinstance(rs, spmatrix), 'mut': 0}
            big = any(abs(v) > 1e9 for v in rd)       # beyond this the small-integer arithmetic is no longer exact
            if not isinstance(rs, spmatrix):
                if rs.size != rd.size or list(rs) != list(matrix(rd, tc=rs.typecode)):
                    raise Mismatch('twin-differs', '%s: dense result differs from the dense computation' % dk, op='derive.' + dk)
            if big:
                check_world(w, 'derive.' + dk)
                del w.env[nm]
        else:
            if isinstance(rd, matrix) or rs != rd:
                raise Mismatch('twin-differs', '%s: scalar result %r, dense computation gives %r' % (dk, rs, rd), op='derive.' + dk)
        return
    raise ValueError(kind)


def check_world(w, opname, stats=None):
    from cvxopt import matrix
    for name, e in w.env.items():
        X, D = e['X'], e['D']
        if e['sparse'] and stats is not None:
            nz = sum(1 for v in X.V if v != 0)
            if nz < len(X):
                stats['probe.object_with_explicit_zeros_checked'] = stats.get('probe.object_with_explicit_zeros_checked', 0) + 1
            if X.size[0] * X.size[1] == 0:
                stats['probe.object_with_zero_dimension_checked'] = stats.get('probe.object_with_zero_dimension_checked', 0) + 1
        if e['sparse']:
            bad = O.ccs_valid(X)
            if bad:
                raise Mismatch('ccs-invalid', 'after %s: %s has an invalid compressed-column representation: %s' % (opname, name, bad), op=opname)
            Xd = matrix(X)
            if Xd.size != D.size or Xd.typecode != D.typecode or list(Xd) != list(D):
                raise Mismatch('twin-differs', 'after %s: matrix(%s) differs from the dense twin (size %s/%s, typecode %s/%s)' %
                               (opname, name, Xd.size, D.size, Xd.typecode, D.typecode), op=opname)
        else:
            if X.size != D.size or list(X) != list(D):
                raise Mismatch('twin-differs', 'after %s: dense object %s differs from its twin' % (opname, name), op=opname)


def opname_of(op):
    if op[0] == 'seq':
        return opname_of(op[-1])
    if op[0] in ('derive', 'iop'):
        return op[0] + '.' + op[2]
    return op[0]


def targets_of(op):
    if op[0] == 'seq':
        out = set()
        for sub in op[1:]:
            out |= targets_of(sub)
        return out
    k = op[0]
    if k in ('set1', 'set2', 'setV', 'size', 'iop'):
        return {op[1]}
    if k == 'axpy':
        return {op[2]}
    if k in ('gemm',):
        return {op[3]}
    if k == 'syrk':
        return {op[2]}
    if k in ('gemv', 'symv'):
        return {op[3]}
    return set()


ALLOC_MODES = {'guard': 0, 'efence_end': 1, 'efence_start': 2}


def run_ops(ops, journal, rng=None, nops=0, stats=None, alloc_mode='guard'):
    """Execute explicit ops (replay) or generate-while-executing nops operations with rng.
    Returns (violation or None, executed ops, log digest, nontrivial)."""
    if _vp:
        _vp.vp_set_mode(ALLOC_MODES.get(alloc_mode, 0))
    w = World()
    log = core.Log()
    stats = stats if stats is not None else {}
    done = []
    i = 0
    violation = None
    while True:
        if rng is not None:
            if i >= nops:
                break
            op = gen_op(rng, w)
        else:
            if i >= len(ops):
                break
            op = ops[i]
            # keep the name counter ahead of replayed names
            for sub in ([op] if op[0] != 'seq' else op[1:]):
                if sub[0] in ('new', 'derive') and sub[1][1:].isdigit():
                    w.counter = max(w.counter, int(sub[1][1:]))
        journal.log_op(i, op)
        done.append(op)
        name = opname_of(op)
        tg = targets_of(op)
        before = {k: O.bits(e['X']) for k, e in w.env.items() if k not in tg}
        try:
            apply(op, w, stats)
            for k, b in before.items():
                if k in w.env and O.bits(w.env[k]['X']) != b:
                    raise Mismatch('operand-modified', '%s modified %s, which is not its target' % (name, k), op=name)
            check_world(w, name, stats)
            # products of two entries must stay below 2^53 to be exact whatever the order of accumulation:
            # objects with entries beyond 1e6 leave the world after this last exact check
            for k_ in [k_ for k_, e_ in w.env.items() if any(abs(v_) > 1e6 for v_ in e_['D'])]:
                del w.env[k_]
            bad = check_indices()
            if bad:
                raise Mismatch('operand-modified', '%s: %s' % (name, bad), op=name, operand='index')
            nv, txt = seam_check()
            if nv:
                raise Mismatch('allocator-seam', 'after %s: %s' % (name, txt), op=name)
        except Mismatch as mm:
            sig = {'oracle': mm.oracle}
            sig.update(mm.sig)
            sig.setdefault('op', name)
            violation = {'oracle': mm.oracle, 'klass': '%s:%s' % (mm.oracle, sig['op']), 'sig': sig, 'detail': mm.detail}
            journal.end_op(i)
            break
        journal.end_op(i)
        log.add(i, name)
        stats['steps'] = stats.get('steps', 0) + 1
        i += 1
    nontrivial = any(e['sparse'] and e['mut'] >= 2 for e in w.env.values())
    return violation, done, log.digest(), nontrivial


def crash_sig(case, inflight):
    ops = case.get('ops') or []
    if inflight is not None and inflight < len(ops):
        op = ops[inflight]
        sub = op[-1] if op[0] == 'seq' else op
        sig = {'op': opname_of(op)}
        if sub[0] in ('set1', 'set2', 'derive'):
            kinds = [a['k'] for a in sub if isinstance(a, dict) and 'k' in a]
            sig['arg_kinds'] = ','.join(kinds)
        return sig
    return {}


# ----------------------------------------------------------------------------- engine interface

def execute(case, journal):
    warmup()
    v, done, dig, nt = run_ops(case['ops'], journal, alloc_mode=case.get('alloc_mode', 'guard'))
    return {'violation': v, 'digest': dig, 'stats': {}}


def run_unit(seed, tier, r, journal):
    warmup()
    rng = random.Random(seed)
    res = {'evaluations': 0, 'nontrivial_digests': [], 'stats': {}, 'violations': [], 'samples': [], 'digest': None}
    ulog = core.Log()
    for k in range(HIST_PER_UNIT):
        mode = rng.choice(['guard', 'efence_end', 'efence_end', 'efence_start']) if _vp else 'guard'
        journal.begin_case({'ops': [], 'alloc_mode': mode})
        v, done, dig, nt = run_ops(None, journal, rng=rng, nops=rng.randint(5, 30), stats=res['stats'], alloc_mode=mode)
        journal.end_case()
        res['stats']['alloc_mode.' + mode] = res['stats'].get('alloc_mode.' + mode, 0) + 1
        res['evaluations'] += 1
        ulog.add(k, dig)
        if nt:
            res['nontrivial_digests'].append(core.sha(done))
        if v is not None:
            res['violations'].append({'case': {'ops': done, 'alloc_mode': mode}, 'violation': v})
            # the interpreter's state is suspect after a violation (reference counts, heap): report now instead
            # of dying in a later, innocent history — unless it is a listed known finding (a refusal)
            if not core.match_known(core.load_known(PROPERTY), v['sig']):
                break
        if k == 0 and r % 16 == 0:
            res['samples'].append({'ops': done[:12], 'total_ops': len(done)})
    res['digest'] = ulog.digest()
    return res


def shrink(case, still_fails):
    small = core.ddmin(case['ops'], lambda sub: bool(sub) and still_fails(dict(case, ops=sub)), budget=150)
    return dict(case, ops=small) if small else case
