"""faultsim — C10: containment of numerical failures (fault enumeration, DESIGN 5.C10).

One unit = one generated instance: a fault-free pass that counts every KKT factor/solve call and
every LAPACK/CHOLMOD call inside them, then one simulated solve per enumerated fault plan.
"""
import io
import os
import math
import random
import sys
import contextlib

from simkit import core, gen, faults, rescheck
from simkit import cone_ref as CR

NAME = 'faultsim'
PROPERTY = 'C10'
LEVEL = 'fault_enumeration'
RULE = ('instances: seeded planted strictly-feasible cone LPs/QPs (conelp, coneqp, lp, qp, socp, sdp) and smooth convex '
        'programs (cpl, cp) with every KKT path; per instance EVERY index of the factor() and solve() calls of the '
        'fault-free run is failed once, every LAPACK/CHOLMOD call inside them twice (before/after its work), plus '
        'factor-fault pairs (cpl/cp) and seeded convex domain-refusal regions. evaluation = one faulted solve; '
        'non-trivial = a fault actually fired; distinct = distinct (instance digest, fault plan).')
SIM_TIME_NOTE = 'no clock in the system under test; sim_steps = KKT interface calls (factor+solve) executed under the seam'
STUBS = ['ArithmeticError raised by the seam in place of a failing LAPACK/CHOLMOD routine',
         'user F built from explicit convex components (logbar/quad/lse/ball) with an added open convex refusal region']
ASSUMPTIONS = ['a numerical failure is an ArithmeticError raised at a call boundary of the KKT interface or of a '
               'LAPACK/CHOLMOD wrapper called inside it (silent wrong factors are out of scope of C10)',
               'self-consistency tolerances: 1e-6 relative to the magnitude of the terms entering a field + 1e-9',
               'cholmod/glpk/dsdp/umfpack/amd/gsl/fftw are prebuilt wheel binaries']
TIERS = {'quick': {'units': 150, 'wall_cap': 75.0, 'unit_timeout': 240.0},
         'thorough': {'units': 3000, 'wall_cap': 1100.0, 'unit_timeout': 600.0}}

MAX_PLANS = {'quick': 700, 'thorough': 2500}
KINDS = ['conelp', 'conelp', 'coneqp', 'coneqp', 'lp', 'qp', 'socp', 'sdp', 'cpl', 'cpl', 'cpl', 'cp', 'cp', 'gp']
NAMED = {'conelp': ['ldl', 'ldl2', 'qr', 'chol', 'chol2'], 'lp': ['ldl', 'ldl2', 'qr', 'chol', 'chol2'],
         'socp': ['ldl', 'ldl2', 'qr', 'chol'], 'sdp': ['ldl', 'ldl2', 'qr', 'chol'],
         'coneqp': ['ldl', 'ldl2', 'chol', 'chol2'], 'qp': ['ldl', 'ldl2', 'chol', 'chol2'],
         'cpl': ['ldl', 'ldl2', 'chol', 'chol2'], 'cp': ['ldl', 'chol', 'chol2'], 'gp': ['ldl', 'chol', 'chol2']}


def warmup():
    import cvxopt
    from cvxopt import solvers, misc, cvxprog  # noqa
    solvers.options['show_progress'] = False


# ----------------------------------------------------------------------------- instances

def gen_instance(rng):
    kind = rng.choice(KINDS)
    if kind in ('cpl', 'cp'):
        inst = gen.gen_cpl(rng, kind)
    elif kind == 'gp':
        inst = gen.gen_gp(rng)
    elif kind in ('coneqp', 'qp') and rng.random() < 0.15:
        inst = gen.gen_eqqp(rng, kind)
    else:
        if kind in ('lp', 'qp'):
            dims = {'l': rng.randint(1, 7), 'q': [], 's': []}
        elif kind == 'socp':
            dims = gen.gen_dims(rng, allow_s=False)
            if not dims['q']:
                dims['q'] = [rng.randint(2, 4)]
        elif kind == 'sdp':
            dims = gen.gen_dims(rng, allow_q=False)
            if not dims['s']:
                dims['s'] = [rng.choice([2, 3])]
        else:
            dims = gen.gen_dims(rng)
        inst = gen.gen_conelp(rng, kind, dims=dims, qp=kind in ('coneqp', 'qp'))
        gen.add_startpoints(rng, inst)
        r_ = rng.random()
        if kind in ('conelp', 'lp', 'socp', 'sdp') and r_ < 0.1:
            inst = gen.make_infeasible(inst)        # the fault-free run ends with a certificate, not an optimum
        elif kind in ('conelp', 'lp', 'socp', 'sdp') and r_ < 0.2:
            inst = gen.make_unbounded(inst, rng)
        inst.pop('planted', None)
    # KKT path
    dims = inst['dims']
    names = [k for k in NAMED[kind] if not (k == 'chol2' and (dims['q'] or dims['s']))]
    if kind not in ('cpl', 'cp', 'gp') and dims['l'] < inst['n']:
        names = [k for k in names if k != 'chol2'] or names      # keep the F10 class out (DESIGN 9)
    choice = rng.choice(names + ['default'])
    if choice == 'default':
        dflt = 'chol2' if not (dims['q'] or dims['s']) else ('qr' if kind in ('conelp', 'socp', 'sdp') else 'chol')
        if dflt == 'chol2' and kind not in ('cpl', 'cp', 'gp') and dims['l'] < inst['n']:
            choice = rng.choice(names)
    inst['kkt'] = choice
    if (choice == 'chol2' or (choice == 'default' and not (dims['q'] or dims['s']))) and rng.random() < 0.5:
        # all-sparse data: the CHOLMOD branch of kkt_chol2
        for mat in ('G', 'A', 'P'):
            if mat in inst and not inst.get('no_G') or (mat != 'G' and mat in inst):
                inst[mat] = dict(inst[mat], sparse=True)
    inst['user_kkt'] = bool(rng.random() < 0.25) and choice != 'default' and kind != 'gp'
    # the progress and termination messages are code on the failure path too (stdout is captured)
    opts = {'show_progress': bool(rng.random() < 0.35)}
    r = rng.choice([None, None, 0, 1, 2])
    if r is not None:
        opts['refinement'] = r
    inst['options'] = opts
    # a Python kktsolver (or F called from it) fails with a subclass of ArithmeticError as often as with the base class
    inst['exc_class'] = rng.choice([None, None, 'zerodiv', 'overflow', 'fpe'])
    if inst['kkt'] in ('ldl', 'default') and rng.random() < 0.2:
        opts['kktreg'] = rng.choice([0.0, 1e-9, 1e-6])
    if rng.random() < 0.1:
        opts['debug'] = True
    if kind in ('coneqp', 'qp') and rng.random() < 0.15:
        opts['use_correction'] = False
    if inst.get('p') == 0 and kind != 'gp' and not inst.get('no_G') and rng.random() < 0.2:
        inst['pass_empty_A'] = True
    if kind in ('conelp', 'coneqp', 'cpl', 'cp') and not (inst['dims']['q'] or inst['dims']['s']) and not inst.get('no_G') and rng.random() < 0.2:
        inst['dims_none'] = True
    return inst


# ----------------------------------------------------------------------------- domain refusal regions

def make_refuse(region):
    if region is None:
        return None
    t = region['t']
    if t == 'half':
        a, beta = region['a'], region['beta']
        return lambda x: sum(ai * xi for ai, xi in zip(a, x)) >= beta
    if t == 'ball':
        c, r2 = region['c'], region['r'] ** 2
        return lambda x: sum((xi - ci) ** 2 for ci, xi in zip(c, x)) >= r2
    if t == 'slab':
        a, lo, hi = region['a'], region['lo'], region['hi']

        def f(x):
            v = sum(ai * xi for ai, xi in zip(a, x))
            return v <= lo or v >= hi
        return f
    raise ValueError(t)


def gen_regions(rng, inst, base, count):
    """open convex sets containing x0 and the fault-free optimum strictly; their complement is
    refused.  Built from points F was really evaluated at in the fault-free pass."""
    n = inst['n']
    x0 = inst['x0']
    xopt = base['xfinal']
    pts = [t[0] for t in base['ftrace']]
    out = []
    if xopt is None or not pts:
        return out
    tries = 0
    while len(out) < count and tries < count * 6:
        tries += 1
        kind = rng.choice(['half', 'half', 'ball', 'slab'])
        if kind == 'half':
            # half-space through (slightly before) a recorded trial point, keeping x0 and xopt inside
            q = rng.choice(pts)
            a = [rng.uniform(-1, 1) for _ in range(n)]
            va0 = sum(ai * xi for ai, xi in zip(a, x0))
            vao = sum(ai * xi for ai, xi in zip(a, xopt))
            vq = sum(ai * xi for ai, xi in zip(a, q))
            top = max(va0, vao)
            if vq > top + 1e-3:
                beta = top + (vq - top) * rng.uniform(0.2, 1.0)
            else:
                beta = top + rng.uniform(0.05, 0.5)
            reg = {'t': 'half', 'a': a, 'beta': beta}
        elif kind == 'ball':
            c = [(u + v) / 2.0 for u, v in zip(x0, xopt)]
            d = math.sqrt(sum((u - v) ** 2 for u, v in zip(x0, xopt))) / 2.0
            far = max(math.sqrt(sum((u - v) ** 2 for u, v in zip(q, c))) for q in pts)
            r = d + (max(far - d, 0.0)) * rng.uniform(0.1, 1.0) + rng.uniform(0.01, 0.3)
            reg = {'t': 'ball', 'c': c, 'r': r}
        else:
            a = [rng.uniform(-1, 1) for _ in range(n)]
            va0 = sum(ai * xi for ai, xi in zip(a, x0))
            vao = sum(ai * xi for ai, xi in zip(a, xopt))
            lo = min(va0, vao) - rng.uniform(0.02, 0.6)
            hi = max(va0, vao) + rng.uniform(0.02, 0.6)
            reg = {'t': 'slab', 'a': a, 'lo': lo, 'hi': hi}
        f = make_refuse(reg)
        if f(x0) or f(xopt):
            continue
        out.append(reg)
    return out


# ----------------------------------------------------------------------------- one simulated solve

class Outcome:
    pass


def simulate(inst, plan, log=None):
    """Run the entry point once under the seams with the given fault plan.
    plan = {'kkt': [[kind, k], ...], 'lapack': [[j, 'before'|'after'], ...], 'domain': region|None}"""
    from cvxopt import misc, cvxprog, solvers
    kind = inst['kind']
    kplan = {(a, int(b)): True for a, b in plan.get('kkt', [])}
    lplan = {int(j): w for j, w in plan.get('lapack', [])}
    seam = faults.KktSeam(kplan, log)
    seam.exc_class = {'zerodiv': ZeroDivisionError, 'overflow': OverflowError, 'fpe': FloatingPointError}.get(inst.get('exc_class'), ArithmeticError)
    lseam = faults.LapackSeam(lplan)
    seam.lapack = lseam
    refuse = make_refuse(plan.get('domain'))
    F = gen.ConvexF(inst, refuse) if kind in ('cpl', 'cp') else None
    m = gen.materialise(inst, F)
    if kind == 'gp':
        m['F'] = gen.M(inst['F'])
        m['g'] = gen.V(inst['g'])
    out = Outcome()
    out.raw_cpl = None
    orig = {name: getattr(misc, name) for name in faults.KKT_NAMES}
    kk = inst['kkt']
    kktsolver = None if kk == 'default' else kk
    if inst.get('user_kkt') and kk != 'default':
        A = m['A']
        if kind in ('cpl', 'cp'):
            mnl = len(inst['comps']) - (1 if kind == 'cp' else 0)
            fac = orig['kkt_' + kk](m['G'], m['dims'], A, mnl)
            wf = seam.wrap_factor(fac)
            if kind == 'cpl':
                def kktsolver(x, z, W, _F=F, _wf=wf):
                    f, Df, H = _F(x, z)
                    return _wf(W, H, Df)
            else:
                def kktsolver(x, z, W, _F=F, _wf=wf):
                    f, Df, H = _F(x, z)
                    return _wf(W, H, Df[1:, :])
        else:
            fac = orig['kkt_' + kk](m['G'], m['dims'], A)
            wf = seam.wrap_factor(fac)
            if kind in ('coneqp', 'qp'):
                def kktsolver(W, _wf=wf, _P=m['P']):
                    return _wf(W, _P)
            else:
                kktsolver = wf
    seam.install(misc)
    lseam.install(misc)
    real_cpl = cvxprog.cpl

    def cpl_capture(*a, **kw):
        r = real_cpl(*a, **kw)
        out.raw_cpl = dict(r)
        return r
    if kind in ('cp', 'gp'):
        cvxprog.cpl = cpl_capture
    buf = io.StringIO()
    out.exc = None
    out.res = None
    try:
        with contextlib.redirect_stdout(buf):
            try:
                opts = dict(inst['options'])
                opts.update(plan.get('tol') or {})
                if kind == 'gp':
                    out.res = gen.solve_gp(inst, m, options=opts, kktsolver=kktsolver)
                else:
                    out.res = gen.call_solver(inst, m, kktsolver=kktsolver, options=opts)
            except BaseException as e:   # noqa — classified by the oracle
                out.exc = e
    finally:
        cvxprog.cpl = real_cpl
        lseam.uninstall()
        seam.uninstall()
    if kind == 'cpl':
        out.raw_cpl = out.res
    out.seam, out.lseam, out.F = seam, lseam, F
    out.stdout = buf.getvalue()
    return out


def summarise(inst, out):
    """picklable summary of a fault-free pass"""
    res = out.res
    b = {'status': None, 'exc': None, 'NF': out.seam.nfactor, 'NS': out.seam.nsolve,
         'lapack_calls': [(j, name) for j, name, _ in out.lseam.calls],
         'calls': list(out.seam.calls), 'pcost': None, 'xfinal': None, 'ftrace': [], 'fcalls': 0}
    if out.exc is not None:
        b['exc'] = '%s: %s' % (type(out.exc).__name__, out.exc)
    elif isinstance(res, dict):
        b['status'] = res.get('status')
        b['pcost'] = res.get('primal objective')
        if inst['kind'] in ('cpl', 'cp', 'gp') and res.get('x') is not None:
            b['xfinal'] = list(res['x'])
    if out.F is not None:
        b['ftrace'] = [t for t in out.F.trace if not t[2]][:400]
        b['fcalls'] = out.F.calls
    return b


# ----------------------------------------------------------------------------- the oracle

def phase_of(f):
    # f = (kind, ordinal, frame, iters, relaxed_iters)
    it = f[3]
    return 'startup' if it is None else ('iter0' if it == 0 else 'iter>=1')


def judge(inst, plan, out, base):
    """Returns (violation or None, facts dict)."""
    kind = inst['kind']
    seam, lseam = out.seam, out.lseam
    facts = {'fired_kkt': len(seam.fired), 'fired_lapack': len(lseam.fired),
             'interface_failed': len(seam.interface_failed), 'refused': out.F.refused if out.F else 0}
    fired_any = bool(seam.fired or lseam.fired)
    domain = plan.get('domain') is not None
    facts['fired_any'] = fired_any or (domain and facts['refused'] > 0)

    natural = bool(plan.get('tol')) and not fired_any and not domain

    def V(oracle, klass, detail, **sig):
        s = {'oracle': oracle, 'entry': kind, 'kkt': inst['kkt'], 'user_kkt': bool(inst.get('user_kkt'))}
        if natural:
            # no injected fault: whatever goes wrong here is the iteration's own breakdown under unattainable
            # tolerances (exceptions escaping, or an 'unknown' result assembled from broken-down iterates)
            s['natural'] = True
            s['family'] = 'arithmetic'
            klass = 'natural:' + klass
        s.update(sig)
        return {'oracle': oracle, 'klass': '%s:%s:%s' % (oracle, kind, klass), 'sig': s, 'detail': detail}

    # phase of the first failure that left the KKT interface
    first = None
    if seam.interface_failed:
        knd, k, _ = seam.interface_failed[0]
        for c in seam.calls:
            if c[0] == knd and c[1] == k:
                first = c
                break
    ph = phase_of(first) if first else None
    facts['phase'] = ph
    # ---- N. no injected fault, but tolerances beyond what double precision can deliver: the iteration
    #         runs into its own numerical breakdown (square roots of rounded-negative numbers, zero
    #         singular values, overflow).  That is a numerical failure inside a solve like any other:
    #         it must end in a result ('unknown', or whatever was reached), not in an exception.
    if plan.get('tol') and not seam.interface_failed and not fired_any and not domain:
        facts['fired_any'] = True
        facts['natural'] = True
        if out.exc is not None:
            e = out.exc
            import traceback
            frames = [f for f in traceback.extract_tb(e.__traceback__) if os.sep + 'cvxopt' + os.sep in f.filename]
            site = frames[-1].name if frames else '?'
            arithmetic = isinstance(e, ArithmeticError) or (isinstance(e, ValueError) and 'domain error' in str(e))
            facts['outcome'] = 'natural:' + type(e).__name__
            return V('natural-breakdown-escapes', type(e).__name__ + ':' + site,
                     'with %r and no injected fault %s(%s) left the solver from %s()' % (plan['tol'], type(e).__name__, e, site),
                     exc=type(e).__name__, site=site, family='arithmetic' if arithmetic else 'other'), facts
        if not isinstance(out.res, dict):
            return V('result-type', 'x', 'solver returned %r' % type(out.res)), facts
        facts['outcome'] = out.res.get('status')
        if out.res.get('status') == 'optimal' and base['status'] == 'optimal':
            a, b = out.res.get('primal objective'), base['pcost']
            if abs(a - b) > 1e-4 * (1.0 + abs(b)):
                return V('tighter-tolerances-change-optimum', 'objective', "'optimal' with objective %r under tighter tolerances; default tolerances gave %r" % (a, b)), facts
        return None, facts
    # ---- A. what may leave the solver
    if out.exc is not None:
        e = out.exc
        if isinstance(e, RuntimeError) and 'VERIF: F-call budget' in str(e):
            return V('backtracking-terminates', 'budget', 'line search did not terminate within the F-call budget: %s' % e), facts
        arithmetic = isinstance(e, ArithmeticError) or (isinstance(e, ValueError) and 'domain error' in str(e))
        if arithmetic and not seam.interface_failed and not fired_any and domain and facts['refused'] > 0:
            # no injected failure: F's refusals kept the line search at the edge of the domain until the
            # iteration broke down numerically by itself (sqrt of a rounded-negative number, division by an
            # underflowed value) - the same uncontained breakdown as under unattainable tolerances
            import traceback
            frames = [f for f in traceback.extract_tb(e.__traceback__) if os.sep + 'cvxopt' + os.sep in f.filename]
            site = frames[-1].name if frames else '?'
            facts['outcome'] = 'natural:' + type(e).__name__
            return V('natural-breakdown-escapes', 'domain:' + type(e).__name__ + ':' + site,
                     'after %d refusals by F and no injected fault %s(%s) left the solver from %s()' % (facts['refused'], type(e).__name__, e, site),
                     exc=type(e).__name__, site=site, family='arithmetic', natural=True, trigger='domain-refusals'), facts
        if not isinstance(e, ValueError):
            where = 'kkt-%s' % first[0] if first else ('domain' if domain else 'none')
            return V('no-escape', type(e).__name__ + ':' + where + ':' + str(ph),
                     '%s left the solver (%s); first interface failure: %s; fired: %s %s' %
                     (type(e).__name__, e, first, seam.fired[:3], lseam.fired[:3]),
                     exc=type(e).__name__, failed=first[0] if first else None, phase=ph), facts
        # ValueError: only the documented rank message, only for a failure in start-up / iteration 0
        msg = str(e)
        if not seam.interface_failed:
            return V('valueerror-without-failure', 'x', 'ValueError(%s) although no failure left the KKT interface' % msg), facts
        if 'Rank(' not in msg:
            return V('valueerror-message', 'x', 'ValueError with undocumented message: %s' % msg, phase=ph), facts
        if ph == 'iter>=1':
            return V('valueerror-late', 'x', 'rank ValueError for a failure in iteration %s (%s)' % (first[3], first,), phase=ph), facts
        facts['outcome'] = 'ValueError'
        return None, facts
    res = out.res
    if not isinstance(res, dict):
        return V('result-type', 'x', 'solver returned %r' % type(res)), facts
    status = res.get('status')
    facts['outcome'] = status
    # ---- B. absorbed faults / refusals only: the answer must not change
    if not seam.interface_failed:
        if fired_any or domain:
            bs = base['status']
            if status == 'optimal':
                if bs != 'optimal':
                    return V('absorbed-changes-answer', 'status', "status 'optimal' but the fault-free run ended %r" % bs,
                             absorbed=bool(lseam.fired)), facts
                a, b = res.get('primal objective'), base['pcost']
                if abs(a - b) > 1e-4 * (1.0 + abs(b)):
                    return V('optimal-on-account-of-fault', 'objective',
                             "reports 'optimal' with objective %r; fault-free optimum %r" % (a, b), absorbed=bool(lseam.fired)), facts
            elif lseam.fired and not domain and status != bs:
                return V('absorbed-changes-answer', 'status', 'absorbed inner fault changed status %r -> %r' % (bs, status),
                         absorbed=True), facts
        if domain and out.F is not None:
            v = judge_domain(inst, plan, out, V)
            if v:
                return v, facts
        v = judge_wrapper(inst, out, V)
        if v:
            return v, facts
        return None, facts
    # ---- C. a failure left the KKT interface and the solver returned a dict
    later_calls = 0
    if first is not None:
        idx = seam.calls.index(first)
        later_calls = len(seam.calls) - idx - 1
    facts['restored'] = kind in ('cpl', 'cp', 'gp') and later_calls > 0
    if status != 'unknown':
        if not facts['restored']:
            return V('status-after-failure', str(status), 'status %r after a KKT failure at %s (no restore)' % (status, first),
                     phase=ph, failed=first[0]), facts
        if status == 'optimal':
            if base['status'] != 'optimal' or abs(res['primal objective'] - base['pcost']) > 1e-4 * (1.0 + abs(base['pcost'])):
                return V('optimal-on-account-of-fault', 'restored', "after restore: 'optimal' with objective %r; fault-free: %r %r" %
                         (res.get('primal objective'), base['status'], base['pcost'])), facts
    if status == 'unknown':
        if kind in ('cpl', 'cp', 'gp'):
            probs, info = rescheck.check_cpl_result(inst, out.raw_cpl, make_refuse(plan.get('domain')))
        else:
            probs, info = rescheck.check_cone_result(inst, res)
        nfired = len(seam.fired) + len(lseam.fired)
        for pr in probs:
            if pr[0] in ('missing', 'nonfinite', 'domain'):
                return V('unknown-iterates', pr[0] + ':' + pr[1], "'unknown' result: %s %s" % (pr[0], pr[1]), phase=ph), facts
        # "strictly inside" is judged exactly for injected failures (the iterates are then well inside).  When the
        # failure is the iteration's own breakdown under unattainable tolerances, the iterates sit on the boundary
        # to within rounding and the oracle's own floating-point margin (smallest entry / x0 - |x1| / smallest
        # eigenvalue) decides nothing inside |margin| <= 1e-13 * norm
        tol_s = 1e-13 * max(1.0, info.get('norm_s', 0.0))
        tol_z = 1e-13 * max(1.0, info.get('norm_z', 0.0))
        if plan.get('tol') and not fired_any and 'margin_s' in info and \
                (abs(info['margin_s']) <= tol_s or abs(info['margin_z']) <= tol_z) and \
                not (info['margin_s'] < -tol_s or info['margin_z'] < -tol_z):
            facts['interior_inconclusive'] = True
        elif info.get('margin_s', 1) <= 0 or info.get('margin_z', 1) <= 0:
            return V('unknown-interior', 'x', "'unknown' result with s or z not strictly inside the cone: margins %r %r" %
                     (info.get('margin_s'), info.get('margin_z')), phase=ph), facts
        if probs:
            names = sorted(set(p[1] for p in probs))
            return V('unknown-self-consistent', ','.join(names),
                     "'unknown' result whose fields do not describe the returned point: " +
                     '; '.join('%s reported %r recomputed %r' % (p[1], p[2], p[3]) for p in probs[:4]),
                     phase=ph, restored=facts['restored'], fields=','.join(names), faults=nfired), facts
        if 'iterations' in res and first is not None and first[3] is not None and not facts['restored']:
            if res['iterations'] != first[3]:
                return V('unknown-iterations', 'x', "'iterations' = %r but the failure fell in iteration %r" % (res['iterations'], first[3])), facts
    if domain and out.F is not None:
        v = judge_domain(inst, plan, out, V)
        if v:
            return v, facts
    v = judge_wrapper(inst, out, V)
    if v:
        return v, facts
    return None, facts


def judge_wrapper(inst, out, V):
    """cp and gp hand on what cpl returned: same status and accuracy fields, x without the epigraph
    variable, snl/znl without the epigraph row, everything else untouched"""
    if inst['kind'] not in ('cp', 'gp') or out.raw_cpl is None or not isinstance(out.res, dict):
        return None
    raw, res = out.raw_cpl, out.res
    for k in ('status', 'gap', 'relative gap', 'primal objective', 'dual objective', 'primal infeasibility',
              'dual infeasibility', 'primal slack', 'dual slack'):
        a, b = raw.get(k), res.get(k)
        if not (a == b or (a is None and b is None)):
            return V('wrapper-changes-result', k, "%s reports %s = %r, the cpl call it wraps returned %r" % (inst['kind'], k, b, a), field=k)
    try:
        same = (list(res['x']) == list(raw['x'][0]) and list(res['snl']) == list(raw['snl'])[1:] and list(res['znl']) == list(raw['znl'])[1:]
                and list(res['sl']) == list(raw['sl']) and list(res['zl']) == list(raw['zl']) and list(res['y']) == list(raw['y']))
    except Exception as e:    # noqa
        return V('wrapper-changes-result', 'vectors', '%s result vectors unreadable: %r' % (inst['kind'], e), field='vectors')
    if not same:
        return V('wrapper-changes-result', 'vectors', '%s result vectors differ from those of the wrapped cpl call' % inst['kind'], field='vectors')
    return None


def judge_domain(inst, plan, out, V):
    F = out.F
    if F.refused_hess:
        return V('domain-hessian-at-refused-point', 'x', 'F(x,z) was requested %d times at a point outside the domain' % F.refused_hess)
    res = out.res
    if isinstance(res, dict) and res.get('x') is not None:
        x = list(res['x'])
        if not F.in_domain(x):
            return V('domain-returned-x', 'x', 'returned x lies outside the (restricted) domain')
    return None


# ----------------------------------------------------------------------------- engine interface

def execute(case, journal):
    """one explicit case: fault-free pass + the faulted solve + oracle"""
    warmup()
    inst, plan = case['inst'], case['plan']
    log = core.Log()
    base_out = simulate(inst, {})
    base = summarise(inst, base_out)
    out = simulate(inst, plan, log)
    v, facts = judge(inst, plan, out, base)
    log.add('outcome', facts.get('outcome'), repr(out.exc)[:80] if out.exc else None)
    return {'violation': v, 'digest': log.digest(), 'stats': {}}


def plans_for(rng, inst, base, tier):
    NF, NS = base['NF'], base['NS']
    plans = []
    for k in range(1, NF + 1):
        plans.append({'kkt': [['factor', k]]})
    for k in range(1, NS + 1):
        plans.append({'kkt': [['solve', k]]})
    for j, name in base['lapack_calls']:
        plans.append({'lapack': [[j, 'before']]})
        plans.append({'lapack': [[j, 'after']]})
    if inst['kind'] in ('cpl', 'cp', 'gp'):
        for k in range(2, NF):
            plans.append({'kkt': [['factor', k], ['factor', k + 1]]})
        allpairs = [(a, b) for a in range(2, NF + 1) for b in range(a + 2, NF + 1)]
        if tier == 'thorough' and NF <= 20:
            pick = allpairs
        else:
            rng.shuffle(allpairs)
            pick = allpairs[:12]
        for a, b in pick:
            plans.append({'kkt': [['factor', a], ['factor', b]]})
        # factor fault followed by a solve fault after the restore, triples
        for _ in range(8 if tier == 'quick' else 24):
            if NF >= 3 and NS >= 3:
                a = rng.randint(2, NF)
                plans.append({'kkt': [['factor', a], ['solve', rng.randint(1, NS)]]})
        for _ in range(4 if tier == 'quick' else 16):
            if NF >= 4:
                a = rng.randint(2, NF - 2)
                plans.append({'kkt': [['factor', a], ['factor', a + 1], ['factor', rng.randint(a + 2, NF)]]})
        if base['status'] == 'optimal' and inst['kind'] != 'gp':
            regs = gen_regions(rng, inst, base, 12 if tier == 'quick' else 40)
            for i, reg in enumerate(regs):
                plans.append({'domain': reg})
                if i % 3 == 0 and NF >= 2:
                    plans.append({'domain': reg, 'kkt': [['factor', rng.randint(1, NF)]]})
                if i % 4 == 0 and NS >= 2:
                    plans.append({'domain': reg, 'kkt': [['solve', rng.randint(1, NS)]]})
        pass
    else:
        # seeded pairs: two solve faults / factor+solve (second only matters if the first is survived)
        for _ in range(4):
            if NF >= 2 and NS >= 2:
                plans.append({'kkt': [['factor', rng.randint(1, NF)], ['solve', rng.randint(1, NS)]]})
    # natural numerical breakdown: valid tolerances that cannot be attained
    for tol in ({'feastol': 1e-10, 'abstol': 1e-10, 'reltol': 1e-10},
                {'feastol': 1e-12, 'abstol': 1e-12, 'reltol': 1e-12, 'refinement': rng.choice([0, 1, 2])},
                {'feastol': 1e-14, 'abstol': 1e-15, 'reltol': 1e-15, 'maxiters': rng.choice([40, 100])}):
        plans.append({'tol': tol})
    return plans


def run_unit(seed, tier, r, journal):
    warmup()
    rng = random.Random(seed)
    inst = gen_instance(rng)
    ulog = core.Log()
    ulog.add('seed', seed)
    stats = {}

    def bump(k, n=1):
        stats[k] = stats.get(k, 0) + n

    base_out = simulate(inst, {})
    base = summarise(inst, base_out)
    idig = core.sha(inst)
    ulog.add('instance', idig, base['status'], base['exc'], base['NF'], base['NS'], len(base['lapack_calls']))
    res = {'evaluations': 0, 'nontrivial_digests': [], 'stats': stats, 'violations': [], 'samples': [], 'digest': None}
    bump('instances')
    bump('instances.' + inst['kind'])
    certificate = (inst.get('infeasible') and base['status'] == 'primal infeasible') or (inst.get('unbounded') and base['status'] == 'dual infeasible')
    if base['exc'] is not None or (base['status'] != 'optimal' and not certificate):
        # degenerate instance (rank-deficient by chance, or the fault-free run itself does not converge):
        # the oracles are stated relative to a fault-free optimum, nothing to enumerate
        bump('instances.degenerate')
        ulog.add('degenerate')
        res['digest'] = ulog.digest()
        return res
    bump('baseline.' + str(base['status']))
    plans = plans_for(rng, inst, base, tier)
    cap = MAX_PLANS[tier]
    if len(plans) > cap:
        # bound the unit: keep a seeded sample (evidence counts such instances as not exhaustively enumerated)
        bump('instances.enumeration_sampled_not_exhaustive')
        idx = sorted(rng.sample(range(len(plans)), cap))
        plans = [plans[i] for i in idx]
    else:
        bump('instances.enumerated_exhaustively')
    sample = None
    for plan in plans:
        out = simulate(inst, plan)
        v, facts = judge(inst, plan, out, base)
        res['evaluations'] += 1
        bump('steps', out.seam.nfactor + out.seam.nsolve)
        ulog.add('plan', plan.get('kkt'), plan.get('lapack'), bool(plan.get('domain')), facts.get('outcome'),
                 facts.get('phase'), type(out.exc).__name__ if out.exc else None)
        if facts.get('natural'):
            bump('fault.unattainable_tolerances')
            bump('probe.natural_breakdown.' + str(facts.get('outcome')).replace(' ', '_'))
        if facts['fired_any']:
            res['nontrivial_digests'].append(core.sha((idig, plan)))
            for f in out.seam.fired:
                bump('fault.kkt.%s.%s' % (f[0], phase_of(f)))
                if inst['kind'] in ('cpl', 'cp', 'gp') and f[0] == 'factor' and f[3] and f[4] is not None and 0 < f[4] < 8:
                    bump('probe.cpl.failure_after_relaxed_step')
            for f in out.lseam.fired:
                bump('fault.%s.%s' % (f[1], f[2]))
            if plan.get('domain') is not None and facts['refused']:
                bump('fault.domain_refusal.regions_that_refused')
                bump('fault.domain_refusal.refused_calls', facts['refused'])
            if (out.lseam.fired) and not out.seam.interface_failed:
                bump('probe.fault_absorbed_inside_factory')
            if facts.get('restored'):
                bump('probe.cpl.restore_and_continue')
                if len([f for f in out.seam.fired if f[0] == 'factor']) >= 2:
                    bump('probe.cpl.failure_after_restore')
            if facts.get('outcome') == 'ValueError':
                bump('probe.rank_valueerror')
            elif facts.get('outcome') == 'unknown':
                bump('probe.unknown_returned')
            elif facts.get('outcome') == 'optimal':
                bump('probe.optimal_despite_fault')
        else:
            bump('plans_where_no_fault_fired')
        if v is not None:
            res['violations'].append({'case': {'inst': inst, 'plan': plan}, 'violation': v})
        if sample is None and facts['fired_any'] and (plan.get('kkt') or plan.get('lapack')):
            sample = {'entry': inst['kind'], 'kkt': inst['kkt'], 'user_kkt': inst.get('user_kkt'), 'dims': inst['dims'],
                      'n': inst['n'], 'p': inst['p'], 'fault_free': {'status': base['status'], 'factor_calls': base['NF'],
                                                                     'solve_calls': base['NS'], 'lapack_calls': len(base['lapack_calls'])},
                      'plan': plan, 'fired': [list(map(str, f)) for f in out.seam.fired][:3], 'outcome': facts.get('outcome'),
                      'plans_enumerated_for_this_instance': len(plans)}
    if sample:
        res['samples'].append(sample)
    res['digest'] = ulog.digest()
    return res


def shrink(case, still_fails):
    """fewer faults first, then simpler instance options"""
    inst, plan = case['inst'], case['plan']
    best = case
    items = [('kkt', x) for x in plan.get('kkt', [])] + [('lapack', x) for x in plan.get('lapack', [])]
    if plan.get('domain') is not None:
        items.append(('domain', plan['domain']))

    if plan.get('tol') and not items:
        return case

    def build(sub):
        p = {}
        if plan.get('tol'):
            p['tol'] = plan['tol']
        for kind, x in sub:
            if kind == 'domain':
                p['domain'] = x
            else:
                p.setdefault(kind, []).append(x)
        return {'inst': inst, 'plan': p}

    small = core.ddmin(items, lambda sub: bool(sub) and still_fails(build(sub)), budget=40)
    if small:
        best = build(small)
    # simplifications of the instance
    for key, val in (('user_kkt', False),):
        if best['inst'].get(key) not in (val, None):
            cand = {'inst': dict(best['inst'], **{key: val}), 'plan': best['plan']}
            if still_fails(cand):
                best = cand
    for sp in ('primalstart', 'dualstart', 'initvals'):
        if sp in best['inst']:
            i2 = dict(best['inst'])
            del i2[sp]
            cand = {'inst': i2, 'plan': best['plan']}
            if still_fails(cand):
                best = cand
    for mat in ('G', 'A', 'P'):
        if mat in best['inst'] and best['inst'][mat].get('sparse'):
            i2 = dict(best['inst'])
            i2[mat] = dict(i2[mat], sparse=False)
            cand = {'inst': i2, 'plan': best['plan']}
            if still_fails(cand):
                best = cand
    return best


def coverage_extra(stats):
    return {'exhaustive_per_instance': stats.get('instances.enumeration_sampled_not_exhaustive', 0) == 0,
            'exhaustive_note': 'every factor/solve/LAPACK/CHOLMOD call index of each sampled instance was failed, except for the '
                               'instances counted under instances.enumeration_sampled_not_exhaustive (plan list above the per-instance cap: seeded sample); instances are sampled'}
