"""Seeded generators of small solver instances with *explicit* data (JSON-serialisable), and
their materialisation as cvxopt objects.  All numeric data come from a random.Random; cvxopt's
own RNG is never touched (DESIGN 2.2)."""
import math

from simkit import cone_ref as CR


# ----------------------------------------------------------------------------- plain helpers

def rvec(rng, n, lo=-1.0, hi=1.0):
    return [round(rng.uniform(lo, hi), 6) for _ in range(n)]


def rmat(rng, m, n, density=1.0):
    """column-major list of an m x n matrix"""
    v = []
    for _ in range(m * n):
        v.append(round(rng.uniform(-1.0, 1.0), 6) if rng.random() < density else 0.0)
    return v


def interior(rng, dims, mnl=0):
    """a point strictly inside the cone, margin >= 0.5"""
    x = []
    x += [round(rng.uniform(0.5, 2.0), 6) for _ in range(mnl + dims['l'])]
    for m in dims['q']:
        x1 = rvec(rng, m - 1)
        x += [round(math.sqrt(sum(t * t for t in x1)) + rng.uniform(0.5, 2.0), 6)] + x1
    for m in dims['s']:
        B = [[rng.uniform(-1, 1) for _ in range(m)] for _ in range(m)]
        S = [[sum(B[i][k] * B[j][k] for k in range(m)) + (rng.uniform(0.5, 1.5) if i == j else 0.0)
              for j in range(m)] for i in range(m)]
        for j in range(m):
            for i in range(m):
                x.append(round(0.5 * (S[i][j] + S[j][i]), 6))
    return x


def sym_columns(rng, dims, n, density=1.0):
    """G (cdim x n, column-major) whose 's' blocks are symmetric matrices in every column"""
    cd = CR.cdim(dims)
    G = [0.0] * (cd * n)
    for j in range(n):
        col = []
        col += [round(rng.uniform(-1, 1), 6) if rng.random() < density else 0.0
                for _ in range(dims['l'] + sum(dims['q']))]
        for m in dims['s']:
            S = [[0.0] * m for _ in range(m)]
            for a in range(m):
                for b in range(a + 1):
                    v = round(rng.uniform(-1, 1), 6) if rng.random() < density else 0.0
                    S[a][b] = v
                    S[b][a] = v
            for b in range(m):
                for a in range(m):
                    col.append(S[a][b])
        G[j * cd:(j + 1) * cd] = col
    return G


def matvec(m, n, a, x):
    return CR.matvec((m, n, a), x)


def matvec_t(m, n, a, x):
    return CR.matvec_t((m, n, a), x)


def gen_dims(rng, max_rows=14, allow_q=True, allow_s=True, min_l=0):
    while True:
        l = rng.choice([0, 1, 2, 3, 4, 5, 6]) if min_l == 0 else rng.randint(min_l, min_l + 4)
        q = [rng.randint(1, 4) for _ in range(rng.choice([0, 0, 1, 1, 2]))] if allow_q else []
        s = [rng.choice([1, 2, 2, 3]) for _ in range(rng.choice([0, 0, 1, 1, 2]))] if allow_s else []
        d = {'l': l, 'q': q, 's': s}
        if 0 < CR.cdim(d) <= max_rows + 4 and l + sum(q) + sum(s) > 0:
            return d


def packed_dim(dims):
    return dims['l'] + sum(dims['q']) + sum(m * (m + 1) // 2 for m in dims['s'])


# ----------------------------------------------------------------------------- cone LP / QP

def gen_conelp(rng, kind='conelp', n=None, dims=None, p=None, sparse=None, qp=False, ml_ge_n=False,
               density=None):
    """planted strictly feasible primal/dual pair; returns an instance dict"""
    if dims is None:
        dims = gen_dims(rng)
    pk = packed_dim(dims)
    if n is None:
        n = rng.randint(1, max(1, min(6, pk)))
    n = max(1, min(n, pk))
    if ml_ge_n and dims['l'] < n:
        dims = dict(dims, l=n + rng.randint(0, 2))
    if p is None:
        p = rng.choice([0, 0, 1, 2])
    p = max(0, min(p, n - 1))
    if density is None:
        density = rng.choice([1.0, 1.0, 0.7])
    cd = CR.cdim(dims)
    G = sym_columns(rng, dims, n, density)
    # make sure no column of G is entirely zero (rank)
    for j in range(n):
        if not any(G[j * cd:(j + 1) * cd]):
            G[j * cd + rng.randrange(max(1, dims['l'] + sum(dims['q'])))] = 1.0
    A = rmat(rng, p, n)
    xs = rvec(rng, n)
    ss = interior(rng, dims)
    zs = interior(rng, dims)
    ys = rvec(rng, p)
    h = [a + b for a, b in zip(matvec(cd, n, G, xs), ss)]
    b = matvec(p, n, A, xs)
    gz = CR.sgemv_t((cd, n, G), zs, dims)
    ay = matvec_t(p, n, A, ys)
    inst = {'kind': kind, 'n': n, 'p': p, 'dims': dims,
            'G': {'m': cd, 'n': n, 'v': G, 'sparse': bool(rng.random() < 0.4) if sparse is None else sparse},
            'h': h, 'A': {'m': p, 'n': n, 'v': A, 'sparse': bool(rng.random() < 0.3) if sparse is None else sparse},
            'b': b}
    if qp:
        k = rng.randint(1, n)
        B = rmat(rng, k, n)
        P = [0.0] * (n * n)
        for i in range(n):
            for j in range(n):
                P[j * n + i] = round(sum(B[i * k + t] * B[j * k + t] for t in range(k)), 6)
        # symmetrise exactly
        for i in range(n):
            for j in range(i):
                P[j * n + i] = P[i * n + j]
        inst['P'] = {'m': n, 'n': n, 'v': P, 'sparse': bool(rng.random() < 0.3) if sparse is None else sparse}
        px = matvec(n, n, P, xs)
        inst['q'] = [-(a + b_ + c_) for a, b_, c_ in zip(px, gz, ay)]
    else:
        inst['c'] = [-(a + b_) for a, b_ in zip(gz, ay)]
    inst['planted'] = {'x': xs, 's': ss, 'z': zs, 'y': ys}
    return inst


def gen_eqqp(rng, kind='coneqp'):
    """QP without inequalities (coneqp's direct-solve shortcut): min 1/2 x'Px + q'x s.t. Ax = b"""
    n = rng.randint(1, 5)
    p = rng.randint(0, n - 1)
    B = rmat(rng, n, n)
    P = [0.0] * (n * n)
    for i in range(n):
        for j in range(n):
            P[j * n + i] = round(sum(B[i * n + t] * B[j * n + t] for t in range(n)) + (0.5 if i == j else 0.0), 6)
    for i in range(n):
        for j in range(i):
            P[j * n + i] = P[i * n + j]
    A = rmat(rng, p, n)
    xs = rvec(rng, n)
    return {'kind': kind, 'n': n, 'p': p, 'dims': {'l': 0, 'q': [], 's': []},
            'G': {'m': 0, 'n': n, 'v': [], 'sparse': False}, 'h': [],
            'A': {'m': p, 'n': n, 'v': A, 'sparse': bool(rng.random() < 0.3)}, 'b': matvec(p, n, A, xs),
            'P': {'m': n, 'n': n, 'v': P, 'sparse': bool(rng.random() < 0.3)}, 'q': rvec(rng, n), 'no_G': True}


def add_startpoints(rng, inst):
    """valid interior start points for conelp/coneqp"""
    dims = inst['dims']
    if inst['kind'] in ('conelp', 'lp', 'socp', 'sdp'):
        which = rng.choice(['none', 'none', 'both', 'primal', 'dual'])
        if which in ('both', 'primal'):
            inst['primalstart'] = {'x': rvec(rng, inst['n']), 's': interior(rng, dims)}
        if which in ('both', 'dual'):
            inst['dualstart'] = {'y': rvec(rng, inst['p']), 'z': interior(rng, dims)}
    elif inst['kind'] in ('coneqp', 'qp'):
        if rng.random() < 0.4:
            iv = {}
            if rng.random() < 0.8:
                iv['x'] = rvec(rng, inst['n'])
            if rng.random() < 0.8:
                iv['s'] = interior(rng, dims)
            if rng.random() < 0.8:
                iv['z'] = interior(rng, dims)
            if rng.random() < 0.5:
                iv['y'] = rvec(rng, inst['p'])
            inst['initvals'] = iv
    return inst


# ----------------------------------------------------------------------------- convex F specs

def gen_comp(rng, n, xfeas, kind=None):
    """one smooth convex function f with f(xfeas) = -U(0.5,2), described by explicit data"""
    kind = kind or rng.choice(['logbar', 'quad', 'lse', 'ball'])
    if kind == 'logbar':
        k = rng.randint(1, 3)
        A = rmat(rng, k, n)
        ax = matvec(k, n, A, xfeas)
        b = [a + round(rng.uniform(0.5, 2.0), 6) for a in ax]
        comp = {'t': 'logbar', 'k': k, 'A': A, 'b': b, 'd': 0.0}
    elif kind == 'quad':
        k = rng.randint(1, n)
        comp = {'t': 'quad', 'k': k, 'B': rmat(rng, k, n), 'p': rvec(rng, n), 'd': 0.0}
    elif kind == 'lse':
        k = rng.randint(2, 4)
        comp = {'t': 'lse', 'k': k, 'A': rmat(rng, k, n), 'b': rvec(rng, k), 'd': 0.0}
    else:
        r2 = sum(t * t for t in xfeas) + round(rng.uniform(1.0, 4.0), 6)
        comp = {'t': 'ball', 'r2': r2, 'd': 0.0}
    v = comp_eval(comp, n, xfeas)[0]
    comp['d'] = -v - round(rng.uniform(0.5, 2.0), 6)
    return comp


def comp_in_domain(comp, n, x):
    t = comp['t']
    if t == 'logbar':
        ax = matvec(comp['k'], n, comp['A'], x)
        return all(b - a > 0.0 for a, b in zip(ax, comp['b']))
    if t == 'ball':
        return comp['r2'] - sum(v * v for v in x) > 0.0
    return True


def comp_eval(comp, n, x, want_hess=False):
    """(value, gradient list, hessian n x n list-of-rows or None) in plain Python"""
    t = comp['t']
    if t == 'logbar':
        k, A = comp['k'], comp['A']
        ax = matvec(k, n, A, x)
        sl = [b - a for a, b in zip(ax, comp['b'])]
        val = -sum(math.log(s) for s in sl) + comp['d']
        g = [sum(A[j * k + i] / sl[i] for i in range(k)) for j in range(n)]
        H = None
        if want_hess:
            H = [[sum(A[a * k + i] * A[b * k + i] / (sl[i] * sl[i]) for i in range(k)) for b in range(n)]
                 for a in range(n)]
        return val, g, H
    if t == 'quad':
        k, B = comp['k'], comp['B']
        bx = matvec(k, n, B, x)
        val = 0.5 * sum(v * v for v in bx) + sum(p * v for p, v in zip(comp['p'], x)) + comp['d']
        g = [sum(B[j * k + i] * bx[i] for i in range(k)) + comp['p'][j] for j in range(n)]
        H = None
        if want_hess:
            H = [[sum(B[a * k + i] * B[b * k + i] for i in range(k)) for b in range(n)] for a in range(n)]
        return val, g, H
    if t == 'lse':
        k, A = comp['k'], comp['A']
        u = [a + b for a, b in zip(matvec(k, n, A, x), comp['b'])]
        mx = max(u)
        e = [math.exp(v - mx) for v in u]
        se = sum(e)
        val = mx + math.log(se) + comp['d']
        w = [v / se for v in e]
        g = [sum(A[j * k + i] * w[i] for i in range(k)) for j in range(n)]
        H = None
        if want_hess:
            H = [[sum(A[a * k + i] * A[b * k + i] * w[i] for i in range(k)) - g[a] * g[b] for b in range(n)]
                 for a in range(n)]
        return val, g, H
    if t == 'ball':
        sl = comp['r2'] - sum(v * v for v in x)
        val = -math.log(sl) + comp['d']
        g = [2.0 * v / sl for v in x]
        H = None
        if want_hess:
            H = [[(2.0 / sl if a == b else 0.0) + 4.0 * x[a] * x[b] / (sl * sl) for b in range(n)] for a in range(n)]
        return val, g, H
    raise ValueError(t)


def gen_cpl(rng, kind='cpl', n=None):
    """cpl: min c'x s.t. f_k(x) <= 0, Gx <=_K h, Ax = b ;  cp: min f_0(x) s.t. ..."""
    n = n or rng.randint(1, 4)
    dims = gen_dims(rng, max_rows=10) if rng.random() < 0.8 else {'l': 0, 'q': [], 's': []}
    if rng.random() < 0.5:
        dims = {'l': dims['l'] or 1, 'q': [], 's': []}
    cd = CR.cdim(dims)
    p = rng.choice([0, 0, 1]) if n > 1 else 0
    xf = rvec(rng, n, -0.5, 0.5)
    ncon = rng.randint(1, 3)
    comps = [gen_comp(rng, n, xf) for _ in range(ncon)]
    # a bounding constraint so that the problem has a minimiser
    bound = {'t': 'quad', 'k': n, 'B': [1.0 if i == j else 0.0 for j in range(n) for i in range(n)], 'p': [0.0] * n, 'd': 0.0}
    bound['d'] = -comp_eval(bound, n, xf)[0] - round(rng.uniform(1.0, 3.0), 6)
    comps.append(bound)
    if kind == 'cp':
        obj = gen_comp(rng, n, xf, kind=rng.choice(['logbar', 'quad', 'lse']))
        comps = [obj] + comps
    G = sym_columns(rng, dims, n) if cd else []
    h = [a + b for a, b in zip(matvec(cd, n, G, xf), interior(rng, dims))] if cd else []
    A = rmat(rng, p, n)
    b = matvec(p, n, A, xf)
    # x0: in the domain of every component, not necessarily feasible
    x0 = list(xf)
    for _ in range(20):
        cand = [v + rng.uniform(-0.3, 0.3) for v in xf]
        if all(comp_in_domain(c, n, cand) for c in comps):
            x0 = [round(v, 6) for v in cand]
            if all(comp_in_domain(c, n, x0) for c in comps):
                break
            x0 = list(xf)
    inst = {'kind': kind, 'n': n, 'p': p, 'dims': dims, 'comps': comps, 'x0': x0,
            'G': {'m': cd, 'n': n, 'v': G, 'sparse': bool(rng.random() < 0.3)}, 'h': h,
            'A': {'m': p, 'n': n, 'v': A, 'sparse': bool(rng.random() < 0.3)}, 'b': b}
    if kind == 'cpl':
        inst['c'] = rvec(rng, n)
    if rng.random() < 0.4:
        inst['refusal_form'] = 'tuple'
    if rng.random() < 0.3:
        inst['sparse_F'] = True
        if rng.random() < 0.7:
            inst['G'] = dict(inst['G'], sparse=True)
            inst['A'] = dict(inst['A'], sparse=True)
    return inst


class ConvexF:
    """The user's F for cpl/cp built from explicit component data.  Records every point at which
    it is evaluated; `refuse(x)` (optional) adds an extra open convex domain restriction."""

    def __init__(self, inst, refuse=None, max_calls=20000):
        from cvxopt import matrix
        self.matrix = matrix
        self.n = inst['n']
        self.comps = inst['comps']
        self.mnl = len(self.comps) - (1 if inst['kind'] == 'cp' else 0)
        self.x0 = inst['x0']
        self.refuse = refuse
        self.calls = 0
        self.hess_calls = 0
        self.refused = 0
        self.refused_hess = 0
        self.max_calls = max_calls
        self.trace = []          # (x list, with_z, refused)
        self.keep_trace = True
        self.sparse_out = bool(inst.get('sparse_F'))
        self.hook = None         # optional callable(call ordinal): lets the simulator make the user's F re-enter the library
        self.refusal_form = inst.get('refusal_form', 'none')     # documented: F(x) returns None or (None, None)
        # the start point is an input of the caller: F() hands out the same stored matrix every time,
        # so a solver that writes into it is observable (C09: "never modifies ... start points")
        self.x0m = matrix(self.x0, (self.n, 1), 'd')

    def in_domain(self, xl):
        if not all(comp_in_domain(c, self.n, xl) for c in self.comps):
            return False
        if self.refuse is not None and self.refuse(xl):
            return False
        return True

    def __call__(self, x=None, z=None):
        matrix = self.matrix
        if x is None:
            return self.mnl, self.x0m
        self.calls += 1
        if self.hook is not None:
            self.hook(self.calls)
        if self.calls > self.max_calls:
            raise RuntimeError('VERIF: F-call budget exhausted (line search does not terminate)')
        xl = list(x)
        ok = self.in_domain(xl)
        if self.keep_trace:
            self.trace.append((xl, z is not None, not ok))
        if not ok:
            self.refused += 1
            if z is not None:
                self.refused_hess += 1
            if self.refusal_form == 'tuple' and z is None:
                return (None, None)
            return None
        n = self.n
        vals, grads = [], []
        Hs = [[0.0] * n for _ in range(n)] if z is not None else None
        for k, c in enumerate(self.comps):
            v, g, H = comp_eval(c, n, xl, want_hess=z is not None)
            vals.append(v)
            grads.append(g)
            if z is not None:
                zk = z[k]
                for a in range(n):
                    for b in range(n):
                        Hs[a][b] += zk * H[a][b]
        m = len(self.comps)
        f = matrix(vals, (m, 1), 'd')
        Df = matrix([grads[i][j] for j in range(n) for i in range(m)], (m, n), 'd')
        if self.sparse_out:
            # sparse Df and H with a constant (full) pattern: the sparse branches of the KKT factories
            from cvxopt import spmatrix
            Df = spmatrix(list(Df), [i for j in range(n) for i in range(m)], [j for j in range(n) for i in range(m)], (m, n), 'd')
        if z is None:
            return f, Df
        self.hess_calls += 1
        Hm = matrix([Hs[a][b] for b in range(n) for a in range(n)], (n, n), 'd')
        if self.sparse_out:
            Hm = spmatrix(list(Hm), [a for b in range(n) for a in range(n)], [b for b in range(n) for a in range(n)], (n, n), 'd')
        return f, Df, Hm


# ----------------------------------------------------------------------------- materialise / call

def M(spec, tc='d'):
    """{'m','n','v','sparse'} -> cvxopt matrix or spmatrix"""
    from cvxopt import matrix, sparse
    D = matrix(spec['v'], (spec['m'], spec['n']), tc)
    if spec.get('sparse'):
        return sparse(D)
    return D


def V(lst):
    from cvxopt import matrix
    return matrix(lst, (len(lst), 1), 'd')


def materialise(inst, F=None):
    """cvxopt argument objects for an instance: dict name -> object"""
    from cvxopt import matrix
    k = inst['kind']
    out = {}
    if 'c' in inst:
        out['c'] = V(inst['c'])
    if 'q' in inst:
        out['q'] = V(inst['q'])
    if 'P' in inst:
        out['P'] = M(inst['P'])
    out['G'] = M(inst['G'])
    out['h'] = V(inst['h'])
    out['A'] = M(inst['A'])
    out['b'] = V(inst['b'])
    out['dims'] = {'l': inst['dims']['l'], 'q': list(inst['dims']['q']), 's': list(inst['dims']['s'])}
    if 'primalstart' in inst:
        out['primalstart'] = {'x': V(inst['primalstart']['x']), 's': V(inst['primalstart']['s'])}
    if 'dualstart' in inst:
        out['dualstart'] = {a: V(v) for a, v in inst['dualstart'].items()}       # 'y' may be left out
    if k in ('socp', 'sdp'):
        # the wrappers take their data and start points in block form; build those objects here, once, so that they
        # are caller-owned arguments like everything else (a wrapper that writes into them must be observable)
        out['wrap'] = split_wrapper_args(inst, out)
        cone = 'q' if k == 'socp' else 's'
        if 'primalstart' in out:
            out['primalstart'] = wrapper_start(inst, out['primalstart'], 's', cone)
        if 'dualstart' in out:
            out['dualstart'] = wrapper_start(inst, out['dualstart'], 'z', cone)
    if 'initvals' in inst:
        out['initvals'] = {a: V(v) for a, v in inst['initvals'].items()}
    if k in ('cpl', 'cp'):
        out['F'] = F if F is not None else ConvexF(inst)
    return out


def split_wrapper_args(inst, m):
    """arguments of the lp/socp/sdp wrappers from the (G, h, dims) of a cone LP"""
    from cvxopt import matrix
    dims = inst['dims']
    G, h = m['G'], m['h']
    l = dims['l']
    out = {}
    n = inst['n']
    out['Gl'] = G[:l, :] if l else None
    out['hl'] = h[:l] if l else None
    ind = l
    Gq, hq = [], []
    for k in dims['q']:
        Gq.append(G[ind:ind + k, :])
        hq.append(h[ind:ind + k])
        ind += k
    Gs, hs = [], []
    for k in dims['s']:
        Gs.append(G[ind:ind + k * k, :])
        hs.append(matrix(h[ind:ind + k * k], (k, k)))
        ind += k * k
    out['Gq'], out['hq'], out['Gs'], out['hs'] = Gq, hq, Gs, hs
    return out


def call_solver(inst, m, kktsolver=None, options=None, use_options_kw=True, extra=None):
    """Call the entry point named by inst['kind'] with materialised arguments m.
    Returns the solver's result (dict) — exceptions propagate."""
    from cvxopt import solvers
    k = inst['kind']
    kw = {}
    if options is not None and use_options_kw:
        kw['options'] = options
    if extra:
        kw.update(extra)
    A = m['A'] if inst['p'] > 0 or inst.get('pass_empty_A') else None
    b = m['b'] if inst['p'] > 0 or inst.get('pass_empty_A') else None
    if kktsolver is not None:
        kw['kktsolver'] = kktsolver
    if inst.get('dims_none') and k in ('conelp', 'coneqp', 'cpl', 'cp') and not (inst['dims']['q'] or inst['dims']['s']):
        m = dict(m, dims=None)          # only componentwise inequalities: dims may be omitted
    if k == 'conelp':
        return solvers.conelp(m['c'], m['G'], m['h'], m['dims'], A, b,
                              primalstart=m.get('primalstart'), dualstart=m.get('dualstart'), **kw)
    if k == 'coneqp':
        if inst.get('no_G'):
            return solvers.coneqp(m['P'], m['q'], None, None, None, A, b, initvals=m.get('initvals'), **kw)
        return solvers.coneqp(m['P'], m['q'], m['G'], m['h'], m['dims'], A, b,
                              initvals=m.get('initvals'), **kw)
    if k == 'lp':
        return solvers.lp(m['c'], m['G'], m['h'], A, b, primalstart=m.get('primalstart'),
                          dualstart=m.get('dualstart'), **kw)
    if k == 'qp':
        if inst.get('no_G'):
            return solvers.qp(m['P'], m['q'], None, None, A, b, initvals=m.get('initvals'), **kw)
        return solvers.qp(m['P'], m['q'], m['G'], m['h'], A, b, initvals=m.get('initvals'), **kw)
    if k in ('socp', 'sdp'):
        w = m['wrap'] if 'wrap' in m else split_wrapper_args(inst, m)
        ps, ds = m.get('primalstart'), m.get('dualstart')
        if k == 'socp':
            return solvers.socp(m['c'], w['Gl'], w['hl'], w['Gq'], w['hq'], A, b,
                                primalstart=ps, dualstart=ds, **kw)
        return solvers.sdp(m['c'], w['Gl'], w['hl'], w['Gs'], w['hs'], A, b,
                           primalstart=ps, dualstart=ds, **kw)
    if k == 'cpl':
        return solvers.cpl(m['c'], m['F'], m['G'], m['h'], m['dims'], A, b, **kw)
    if k == 'cp':
        return solvers.cp(m['F'], m['G'], m['h'], m['dims'], A, b, **kw)
    raise ValueError(k)


def wrapper_start(inst, st, key, cone):
    """conelp-style start point -> socp/sdp wrapper style (sl/sq or sl/ss, zl/zq or zl/zs)"""
    from cvxopt import matrix
    dims = inst['dims']
    out = {a: v for a, v in st.items() if a in ('x', 'y')}
    v = st[key]
    l = dims['l']
    out[key + 'l'] = v[:l]
    ind = l
    if cone == 'q':
        lst = []
        for k in dims['q']:
            lst.append(v[ind:ind + k])
            ind += k
        out[key + 'q'] = lst
    else:
        lst = []
        for k in dims['s']:
            lst.append(matrix(v[ind:ind + k * k], (k, k)))
            ind += k * k
        out[key + 's'] = lst
    return out


# ----------------------------------------------------------------------------- gp / modeling op / variants

def gen_gp(rng):
    n = rng.randint(1, 3)
    mnl = rng.randint(0, 2)
    K = [rng.randint(1, 3) for _ in range(mnl + 1)]
    tot = sum(K)
    F = rmat(rng, tot, n)
    g = []
    for i, k in enumerate(K):
        if i == 0:
            g += rvec(rng, k)
        else:
            tgt = rng.uniform(0.1, 0.8)
            g += [round(math.log(tgt / k), 6)] * k     # feasible at x = 0
    # box |x_j| <= 2 keeps the problem bounded
    G = [0.0] * (2 * n * n)
    for j in range(n):
        G[j * 2 * n + j] = 1.0
        G[j * 2 * n + n + j] = -1.0
    # the same functions as explicit components (for the plain-Python recomputation of result fields):
    # f_k(x) = log sum exp(F_k x + g_k)
    comps = []
    start = 0
    for k in K:
        Ak = [F[j * tot + start + i] for j in range(n) for i in range(k)]
        comps.append({'t': 'lse', 'k': k, 'A': Ak, 'b': g[start:start + k], 'd': 0.0})
        start += k
    return {'kind': 'gp', 'n': n, 'p': 0, 'K': K, 'F': {'m': tot, 'n': n, 'v': F, 'sparse': False}, 'g': g,
            'comps': comps, 'x0': [0.0] * n,
            'dims': {'l': 2 * n, 'q': [], 's': []},
            'G': {'m': 2 * n, 'n': n, 'v': G, 'sparse': bool(rng.random() < 0.3)}, 'h': [2.0] * (2 * n),
            'A': {'m': 0, 'n': n, 'v': [], 'sparse': False}, 'b': []}


def gen_op(rng):
    inst = gen_conelp(rng, 'op', dims={'l': rng.randint(2, 6), 'q': [], 's': []}, sparse=False, ml_ge_n=True)
    inst['format'] = rng.choice(['dense', 'sparse'])
    return inst


def make_infeasible(inst):
    """two contradictory rows x_1 <= -1, -x_1 <= -1 in front of the 'l' block"""
    n = inst['n']
    cd = inst['G']['m']
    G = inst['G']['v']
    newG = []
    for j in range(n):
        newG += [1.0 if j == 0 else 0.0, -1.0 if j == 0 else 0.0] + G[j * cd:(j + 1) * cd]
    out = dict(inst)
    out['G'] = dict(inst['G'], m=cd + 2, v=newG)
    out['h'] = [-1.0, -1.0] + list(inst['h'])
    out['dims'] = dict(inst['dims'], l=inst['dims']['l'] + 2)
    out.pop('primalstart', None)
    out.pop('dualstart', None)
    out.pop('initvals', None)
    out['infeasible'] = True
    return out


def make_unbounded(inst, rng):
    """a new variable t whose column of G is minus an interior point of the cone and whose cost is -1:
    increasing t stays feasible and decreases the objective without bound (dual infeasible problem)"""
    n = inst['n']
    cd = inst['G']['m']
    p = inst['A']['m']
    e = interior(rng, inst['dims'])
    out = dict(inst)
    out['G'] = dict(inst['G'], n=n + 1, v=list(inst['G']['v']) + [-v for v in e])
    out['A'] = dict(inst['A'], n=n + 1, v=list(inst['A']['v']) + [0.0] * p)
    out['c'] = list(inst['c']) + [-1.0]
    out['n'] = n + 1
    out.pop('primalstart', None)
    out.pop('dualstart', None)
    out['unbounded'] = True
    return out


def junk_upper_triangles(rng, inst, vec):
    """overwrite the strictly upper triangles of the 's' blocks of a flat cone vector with junk: the
    solvers are documented to read the lower triangles only (and must not write either)"""
    out = list(vec)
    for kind, off, m in CR.blocks(inst['dims']):
        if kind == 's':
            for j in range(m):
                for i in range(j):
                    out[off + j * m + i] = round(rng.uniform(-9, 9), 3)
    return out


def solve_gp(inst, m, options=None, kktsolver=None):
    from cvxopt import solvers
    kw = {}
    if options is not None:
        kw['options'] = options
    if kktsolver is not None:
        kw['kktsolver'] = kktsolver
    K = m['K'] if 'K' in m else list(inst['K'])
    return solvers.gp(K, m['F'], m['g'], m['G'], m['h'], **kw)


def solve_op(inst, m, options=None, solver='default'):
    from cvxopt import modeling, matrix
    x = modeling.variable(inst['n'], 'x')
    cons = [m['G'] * x <= m['h']]
    if inst['p']:
        cons.append(m['A'] * x == m['b'])
    prob = modeling.op(modeling.dot(m['c'], x), cons)
    kw = {}
    if options is not None:
        kw['options'] = options
    prob.solve(inst.get('format', 'dense'), solver, **kw)
    return {'status': prob.status, 'x': x.value, 'multipliers': [c.multiplier.value for c in cons],
            'objective': prob.objective.value()}
