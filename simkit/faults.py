"""Fault injectors at the seams the code already has (DESIGN 2.5).

KktSeam     wraps the KKT factories misc.kkt_* (looked up by the solvers at call time) or a user
            kktsolver; counts factor()/solve() calls, raises ArithmeticError at planned ordinals,
            and observes whether an ArithmeticError *left* the KKT interface.
LapackSeam  proxies installed as misc.lapack / misc.cholmod, armed only while inside a KKT
            factor/solve; the j-th potrf/sytrf/... raises ArithmeticError before or after its work.
"""
import sys

SOLVER_FRAMES = ('conelp', 'coneqp', 'cpl')
KKT_NAMES = ('kkt_ldl', 'kkt_ldl2', 'kkt_chol', 'kkt_chol2', 'kkt_qr')
LAPACK_FUNCS = ('potrf', 'potrs', 'sytrf', 'sytrs', 'trtrs', 'geqrf', 'ormqr', 'gesvd', 'syevr', 'syevd',
                'getrf', 'getrs', 'posv', 'gels', 'trtri', 'potri', 'syev')
CHOLMOD_FUNCS = ('symbolic', 'numeric', 'solve', 'spsolve', 'linsolve')


def solver_phase():
    """Read, without writing, where the enclosing solver is: (frame name, iters or None,
    relaxed_iters or None).  iters is None during start-up (before the main loop)."""
    f = sys._getframe(1)
    while f is not None:
        name = f.f_code.co_name
        if name in SOLVER_FRAMES and f.f_code.co_filename.endswith(('coneprog.py', 'cvxprog.py')):
            loc = f.f_locals
            return name, loc.get('iters'), loc.get('relaxed_iters')
        f = f.f_back
    return None, None, None


class KktSeam:
    def __init__(self, plan=None, log=None):
        # plan: dict {('factor', k): True, ('solve', k): True}  (1-based ordinals)
        self.plan = dict(plan or {})
        self.nfactor = 0
        self.nsolve = 0
        self.depth = 0
        self.fired = []              # (kind, ordinal, frame, iters, relaxed_iters)
        self.interface_failed = []   # ArithmeticError left factor/solve: (kind, ordinal, injected_here)
        self.calls = []              # (kind, ordinal, frame, iters, relaxed_iters) of every call
        self.lapack = None           # optional LapackSeam armed inside
        self.monitors = []           # callables monitor(kind, W, args) for C07 (factor time)
        self.log = log
        self.exc_class = ArithmeticError   # what a failing factorisation raises: ArithmeticError or one of its subclasses

    # -- generic wrappers
    def wrap_factor(self, factor):
        seam = self

        def vfactor(W, *args, **kw):
            seam.nfactor += 1
            k = seam.nfactor
            ph = solver_phase()
            seam.calls.append(('factor', k) + ph)
            if seam.log is not None:
                seam.log.add('kkt.factor', k, ph)
            for mon in seam.monitors:
                mon('factor', W, args, ph)
            if ('factor', k) in seam.plan:
                seam.fired.append(('factor', k) + ph)
                seam.interface_failed.append(('factor', k, True))
                raise seam.exc_class('VERIF injected: factorisation #%d' % k)
            seam._enter('factor', k)
            try:
                solve = factor(W, *args, **kw)
            except ArithmeticError:
                seam.interface_failed.append(('factor', k, False))
                raise
            finally:
                seam._exit()
            return seam.wrap_solve(solve)
        return vfactor

    def wrap_solve(self, solve):
        seam = self

        def vsolve(x, y, z):
            seam.nsolve += 1
            k = seam.nsolve
            ph = solver_phase()
            seam.calls.append(('solve', k) + ph)
            if seam.log is not None:
                seam.log.add('kkt.solve', k, ph)
            if ('solve', k) in seam.plan:
                seam.fired.append(('solve', k) + ph)
                seam.interface_failed.append(('solve', k, True))
                raise seam.exc_class('VERIF injected: KKT solve #%d' % k)
            seam._enter('solve', k)
            try:
                return solve(x, y, z)
            except ArithmeticError:
                seam.interface_failed.append(('solve', k, False))
                raise
            finally:
                seam._exit()
        return vsolve

    def _enter(self, kind, k):
        self.depth += 1
        if self.lapack is not None:
            self.lapack.armed = self.depth > 0
            self.lapack.where = (kind, k)

    def _exit(self):
        self.depth -= 1
        if self.lapack is not None:
            self.lapack.armed = self.depth > 0

    # -- a user kktsolver for conelp/coneqp: kktsolver(W) -> solve
    def user_kktsolver(self, factory):
        return self.wrap_factor(factory)

    # -- patch misc.kkt_* so that the *named* solver paths of the real code are used
    def install(self, misc):
        self._misc = misc
        self._saved = {}
        seam = self
        for name in KKT_NAMES:
            orig = getattr(misc, name)
            self._saved[name] = orig

            def make(orig):
                def vfactory(*a, **kw):
                    return seam.wrap_factor(orig(*a, **kw))
                return vfactory
            setattr(misc, name, make(orig))
        return self

    def uninstall(self):
        for name, orig in self._saved.items():
            setattr(self._misc, name, orig)
        self._saved = {}


class _Proxy:
    def __init__(self, seam, mod, names, tag):
        self.__dict__['_seam'] = seam
        self.__dict__['_mod'] = mod
        self.__dict__['_names'] = names
        self.__dict__['_tag'] = tag
        self.__dict__['_cache'] = {}

    def __getattr__(self, name):
        mod = self.__dict__['_mod']
        attr = getattr(mod, name)
        if name not in self.__dict__['_names']:
            return attr
        cache = self.__dict__['_cache']
        if name in cache:
            return cache[name]
        seam = self.__dict__['_seam']
        full = self.__dict__['_tag'] + '.' + name

        def wrapped(*a, **kw):
            if not seam.armed:
                return attr(*a, **kw)
            seam.n += 1
            j = seam.n
            seam.calls.append((j, full, seam.where))
            f = seam.plan.get(j)
            if f == 'before':
                seam.fired.append((j, full, 'before', seam.where))
                raise ArithmeticError('VERIF injected: %s call #%d (before work)' % (full, j))
            r = attr(*a, **kw)
            if f == 'after':
                seam.fired.append((j, full, 'after', seam.where))
                raise ArithmeticError('VERIF injected: %s call #%d (after work)' % (full, j))
            return r
        cache[name] = wrapped
        return wrapped

    def __setattr__(self, name, value):
        setattr(self.__dict__['_mod'], name, value)


class LapackSeam:
    def __init__(self, plan=None):
        # plan: {ordinal: 'before'|'after'}
        self.plan = dict(plan or {})
        self.armed = False
        self.where = None
        self.n = 0
        self.calls = []
        self.fired = []

    def install(self, misc):
        self._misc = misc
        self._saved = (misc.lapack, misc.cholmod)
        misc.lapack = _Proxy(self, misc.lapack, LAPACK_FUNCS, 'lapack')
        misc.cholmod = _Proxy(self, misc.cholmod, CHOLMOD_FUNCS, 'cholmod')
        return self

    def uninstall(self):
        self._misc.lapack, self._misc.cholmod = self._saved
