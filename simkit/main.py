"""Inner entry point (runs with PYTHONPATH = <fresh build>:/verif).  Invoked by ./vcheck."""
import os
import sys


def main(argv):
    if os.environ.get('PYTHONHASHSEED') is None:
        os.environ['PYTHONHASHSEED'] = '0'
        os.execv(sys.executable, [sys.executable, '-m', 'simkit.main'] + argv)
    from simkit import core
    cmd = argv[0]
    if cmd in core.ENGINES:
        tier = argv[1] if len(argv) > 1 else os.environ.get('VERIF_TIER', 'quick')
        return core.run_check(cmd, tier)
    if cmd == 'replay-inner':
        return core.replay_file(argv[1])
    if cmd == 'selftest-determinism':
        from simkit import selftest
        return selftest.determinism(argv[1:])
    if cmd == 'unit-digests':
        from simkit import selftest
        return selftest.unit_digests(argv[1:])
    print('unknown command', cmd)
    return 2


if __name__ == '__main__':
    sys.exit(main(sys.argv[1:]))
