"""Deterministic thread scheduler (DESIGN 2.4).

Clients are real Python threads running real cvxopt code.  Every 'line' (and 'call') event in a
frame whose code lives in the freshly built cvxopt package is a yield point.  Exactly one client
is runnable at any time (baton passing through per-client semaphores), so the GIL never decides
anything; a seeded policy decides who runs next.  Every decision is recorded as
[client, local_step, target] (local_step = -1: decision taken when `client` finished), and a
recorded list replays the interleaving exactly.
"""
import sys
import threading


class StepCap(Exception):
    pass


class Client:
    __slots__ = ('idx', 'sem', 'done', 'error', 'local', 'thread', 'out', 'started')

    def __init__(self, idx):
        self.idx = idx
        self.sem = threading.Semaphore(0)
        self.done = False
        self.error = None
        self.local = 0
        self.thread = None
        self.out = []
        self.started = False


# ----------------------------------------------------------------------------- policies

class SeqPolicy:
    name = 'seq'

    def decide(self, s, idx, local):
        return None

    def on_finish(self, s, idx, runnable):
        return runnable[0]

    def forced(self, s, idx, runnable):
        return runnable[0]


class RandomPolicy:
    def __init__(self, rng, p):
        self.rng, self.p = rng, p
        self.name = 'random(p=%g)' % p

    def decide(self, s, idx, local):
        if self.rng.random() < self.p:
            r = s.runnable(exclude=idx)
            if r:
                return self.rng.choice(r)
        return None

    def on_finish(self, s, idx, runnable):
        return self.rng.choice(runnable)

    forced = on_finish


class RRPolicy:
    def __init__(self, rng, q):
        self.q = q
        self.count = 0
        self.name = 'round-robin(q=%d)' % q

    def decide(self, s, idx, local):
        self.count += 1
        if self.count >= self.q:
            self.count = 0
            r = s.runnable(exclude=idx)
            if r:
                nxt = [c for c in r if c > idx]
                return nxt[0] if nxt else r[0]
        return None

    def on_finish(self, s, idx, runnable):
        self.count = 0
        nxt = [c for c in runnable if c > idx]
        return nxt[0] if nxt else runnable[0]

    forced = on_finish


class PCTPolicy:
    """PCT-style: random distinct priorities; at d random global steps the running client's
    priority drops below everyone's; always the highest-priority runnable client runs."""

    def __init__(self, rng, n, d, horizon):
        self.prio = list(range(n))
        rng.shuffle(self.prio)
        self.low = -1
        self.points = set(rng.randrange(1, max(2, horizon)) for _ in range(d))
        self.name = 'pct(d=%d)' % d
        self.rng = rng

    def _best(self, runnable):
        return max(runnable, key=lambda c: self.prio[c])

    def decide(self, s, idx, local):
        if s.step in self.points:
            self.prio[idx] = self.low
            self.low -= 1
            r = s.runnable()
            b = self._best(r)
            return b if b != idx else None
        return None

    def on_finish(self, s, idx, runnable):
        return self._best(runnable)

    def forced(self, s, idx, runnable):
        self.prio[idx] = self.low
        self.low -= 1
        return self._best(runnable)


class ReplayPolicy:
    name = 'replay'

    def __init__(self, schedule):
        self.table = {}
        for c, k, t in schedule:
            self.table.setdefault((c, k), []).append(t)

    def decide(self, s, idx, local):
        lst = self.table.get((idx, local))
        if lst:
            t = lst.pop(0)
            if t != idx and t < len(s.clients) and not s.clients[t].done:
                return t
        return None

    def on_finish(self, s, idx, runnable):
        lst = self.table.get((idx, -1))
        if lst:
            t = lst.pop(0)
            if t in runnable:
                return t
        return runnable[0]

    def forced(self, s, idx, runnable):
        lst = self.table.get((idx, s.clients[idx].local))
        if lst:
            t = lst.pop(0)
            if t in runnable:
                return t
        return runnable[0]


# ----------------------------------------------------------------------------- scheduler

class Sched:
    def __init__(self, pkgdir, policy, cap=600000):
        self.pkgdir = pkgdir
        self.policy = policy
        self.cap = cap
        self.clients = []
        self.step = 0
        self.current = None
        self.schedule = []       # [client, local_step, target]
        self.sites = {}          # (file:line) -> switches
        self.main = threading.Semaphore(0)
        self._traced = {}
        self.capped = False
        self.overlap_switches = 0
        self.in_solve = set()    # clients currently inside a solver call (maintained by the engine)

    # -- helpers for policies
    def runnable(self, exclude=None):
        return [c.idx for c in self.clients if not c.done and c.idx != exclude]

    # -- tracing
    def _is_pkg(self, code):
        r = self._traced.get(code)
        if r is None:
            r = code.co_filename.startswith(self.pkgdir)
            self._traced[code] = r
        return r

    def _make_tracers(self, idx):
        sched = self

        def local_trace(frame, event, arg):
            if event == 'line':
                sched.yield_point(idx, frame)
            return local_trace

        def global_trace(frame, event, arg):
            if event == 'call' and sched._is_pkg(frame.f_code):
                sched.yield_point(idx, frame)
                return local_trace
            return None
        return global_trace

    def yield_point(self, idx, frame=None):
        c = self.clients[idx]
        c.local += 1
        self.step += 1
        if self.step > self.cap:
            self.capped = True
            raise StepCap('global step cap %d exceeded' % self.cap)
        t = self.policy.decide(self, idx, c.local)
        if t is not None and t != idx:
            self._switch(c, t, frame)

    def voluntary_yield(self, idx):
        """a client whose body has no cvxopt code (option churn) hands the baton on"""
        c = self.clients[idx]
        c.local += 1
        self.step += 1
        r = self.runnable(exclude=idx)
        if r:
            t = self.policy.forced(self, idx, r)
            self._switch(c, t, None)

    def _switch(self, c, t, frame):
        self.schedule.append([c.idx, c.local, t])
        if frame is not None:
            site = '%s:%d' % (frame.f_code.co_filename[len(self.pkgdir):].lstrip('/'), frame.f_lineno)
            self.sites[site] = self.sites.get(site, 0) + 1
        if len(self.in_solve) >= 2:
            self.overlap_switches += 1
        self.current = t
        self.clients[t].sem.release()
        c.sem.acquire()

    def _thread_main(self, idx, body):
        c = self.clients[idx]
        c.sem.acquire()
        sys.settrace(self._make_tracers(idx))
        try:
            body(idx)
        except BaseException as e:      # noqa
            c.error = e
        finally:
            sys.settrace(None)
            c.done = True
            r = self.runnable()
            if r:
                t = self.policy.on_finish(self, idx, r)
                self.schedule.append([idx, -1, t])
                self.current = t
                self.clients[t].sem.release()
            else:
                self.main.release()

    def run(self, bodies, first=0, timeout=600.0):
        self.clients = [Client(i) for i in range(len(bodies))]
        for i, b in enumerate(bodies):
            th = threading.Thread(target=self._thread_main, args=(i, b), daemon=True)
            self.clients[i].thread = th
            th.start()
        self.current = first
        self.clients[first].sem.release()
        ok = self.main.acquire(timeout=timeout)
        if not ok:
            raise RuntimeError('scheduler: simulated run did not finish within %.0fs wall' % timeout)
        for c in self.clients:
            c.thread.join(timeout=10)
        return self


class StdoutRouter:
    """sys.stdout replacement: what a solver prints goes to the buffer of the client that holds
    the baton (exactly one client runs at any time)."""

    def __init__(self, sched, fallback):
        self.sched = sched
        self.fallback = fallback

    def write(self, s):
        cur = self.sched.current
        if cur is None:
            return self.fallback.write(s)
        self.sched.clients[cur].out.append(s)
        return len(s)

    def flush(self):
        pass
