"""Reference model of dense cvxopt matrices as the manual describes them: a column-major Python list
plus (m, n) and a typecode.  Pure Python, exact on small integers.  Shares no code with dense.c."""

ORDER = {'i': 0, 'd': 1, 'z': 2}


class Refuse(Exception):
    """the model has no answer: the real operation must raise (kind = documented exception name)"""

    def __init__(self, kind, why=''):
        Exception.__init__(self, '%s: %s' % (kind, why))
        self.kind = kind


def tcnum(x):
    if isinstance(x, bool):
        raise Refuse('TypeError', 'bool')
    if isinstance(x, int):
        return 'i'
    if isinstance(x, float):
        return 'd'
    if isinstance(x, complex):
        return 'z'
    raise Refuse('TypeError', 'not a number')


def promote(a, b):
    return a if ORDER[a] >= ORDER[b] else b


def conv(v, tc):
    if tc == 'i':
        return int(v)
    if tc == 'd':
        return float(v)
    return complex(v)


class MM:
    __slots__ = ('tc', 'm', 'n', 'v')

    def __init__(self, tc, m, n, v):
        self.tc, self.m, self.n = tc, m, n
        self.v = [conv(x, tc) for x in v]
        assert len(self.v) == m * n

    @property
    def size(self):
        return (self.m, self.n)

    def copy(self):
        return MM(self.tc, self.m, self.n, self.v)

    def get(self, i, j):
        return self.v[j * self.m + i]


# ----------------------------------------------------------------------------- indices

def norm_index(spec, length):
    """index literal -> ('scalar', pos) or ('list', [pos...]); raises Refuse"""
    k = spec['k']
    if k == 'int':
        i = spec['v']
        if i < -length or i >= length:
            raise Refuse('IndexError', 'index out of range')
        return 'scalar', (i if i >= 0 else length + i)
    if k == 'slice':
        return 'list', list(range(*slice(*spec['v']).indices(length)))
    out = []
    for i in spec['v']:
        if i < -length or i >= length:
            raise Refuse('IndexError', 'index out of range')
        out.append(i if i >= 0 else length + i)
    return 'list', out


def get1(A, spec):
    kind, p = norm_index(spec, A.m * A.n)
    if kind == 'scalar':
        return A.v[p]
    return MM(A.tc, len(p), 1, [A.v[q] for q in p])


def get2(A, si, sj):
    ki, pi = norm_index(si, A.m)
    kj, pj = norm_index(sj, A.n)
    if ki == 'scalar' and kj == 'scalar':
        return A.get(pi, pj)
    I = [pi] if ki == 'scalar' else pi
    J = [pj] if kj == 'scalar' else pj
    return MM(A.tc, len(I), len(J), [A.get(i, j) for j in J for i in I])


def rhs_values(A, rhs, rows, cols):
    """values (column-major, rows x cols) that an assignment writes, after the documented checks"""
    cnt = rows * cols
    if isinstance(rhs, MM):
        if ORDER[rhs.tc] > ORDER[A.tc]:
            raise Refuse('TypeError', 'assignment would change the type')
        if rhs.size == (1, 1):
            return [conv(rhs.v[0], A.tc)] * cnt
        if rhs.size != (rows, cols):
            raise Refuse('TypeError', 'incompatible sizes')
        return [conv(x, A.tc) for x in rhs.v]
    if isinstance(rhs, list):
        tc = 'i'
        for x in rhs:
            tc = promote(tc, tcnum(x))
        if ORDER[tc] > ORDER[A.tc]:
            raise Refuse('TypeError', 'assignment would change the type')
        if len(rhs) == 1:
            return [conv(rhs[0], A.tc)] * cnt        # a one-element sequence is a 1x1 matrix, i.e. a scalar
        if len(rhs) != cnt:
            raise Refuse('TypeError', 'wrong number of elements')
        return [conv(x, A.tc) for x in rhs]
    if ORDER[tcnum(rhs)] > ORDER[A.tc]:
        raise Refuse('TypeError', 'assignment would change the type')
    return [conv(rhs, A.tc)] * cnt


def set1(A, spec, rhs):
    kind, p = norm_index(spec, A.m * A.n)
    P = [p] if kind == 'scalar' else p
    if kind == 'scalar' and (isinstance(rhs, list) or (isinstance(rhs, MM) and rhs.size != (1, 1))):
        raise Refuse('TypeError', 'scalar position needs a scalar')
    vals = rhs_values(A, rhs, len(P), 1)
    for q, x in zip(P, vals):
        A.v[q] = x


def set2(A, si, sj, rhs):
    ki, pi = norm_index(si, A.m)
    kj, pj = norm_index(sj, A.n)
    I = [pi] if ki == 'scalar' else pi
    J = [pj] if kj == 'scalar' else pj
    if ki == 'scalar' and kj == 'scalar' and (isinstance(rhs, list) or (isinstance(rhs, MM) and rhs.size != (1, 1))):
        raise Refuse('TypeError', 'scalar position needs a scalar')
    vals = rhs_values(A, rhs, len(I), len(J))
    k = 0
    for j in J:
        for i in I:
            A.v[j * A.m + i] = vals[k]
            k += 1


# ----------------------------------------------------------------------------- arithmetic

def _bcast(A, B):
    """(size, avals, bvals) for elementwise add/sub of MM A with MM-or-number B"""
    if not isinstance(B, MM):
        return A.size, A.v, [B] * len(A.v)
    if A.size == B.size:
        return A.size, A.v, B.v
    if B.size == (1, 1):
        return A.size, A.v, [B.v[0]] * len(A.v)
    if A.size == (1, 1):
        return B.size, [A.v[0]] * len(B.v), B.v
    raise Refuse('TypeError', 'incompatible dimensions')


def _tc_of(B):
    return B.tc if isinstance(B, MM) else tcnum(B)


def add(A, B, sign=1):
    tc = promote(A.tc, _tc_of(B))
    size, av, bv = _bcast(A, B)
    return MM(tc, size[0], size[1], [conv(a, tc) + sign * conv(b, tc) for a, b in zip(av, bv)])


def rsub(A, c):
    """c - A for a number c"""
    tc = promote(A.tc, tcnum(c))
    return MM(tc, A.m, A.n, [conv(c, tc) - conv(a, tc) for a in A.v])


def mul(A, B):
    tc = promote(A.tc, _tc_of(B))
    if not isinstance(B, MM):
        return MM(tc, A.m, A.n, [conv(a, tc) * conv(B, tc) for a in A.v])
    if A.n == B.m:
        out = []
        for j in range(B.n):
            for i in range(A.m):
                acc = conv(0, tc)
                for l in range(A.n):
                    acc += conv(A.get(i, l), tc) * conv(B.get(l, j), tc)
                out.append(acc)
        return MM(tc, A.m, B.n, out)
    if B.size == (1, 1):
        return MM(tc, A.m, A.n, [conv(a, tc) * conv(B.v[0], tc) for a in A.v])
    if A.size == (1, 1):
        return MM(tc, B.m, B.n, [conv(A.v[0], tc) * conv(b, tc) for b in B.v])
    raise Refuse('TypeError', 'incompatible dimensions')


def div(A, B):
    if isinstance(B, MM):
        if B.size != (1, 1):
            raise Refuse('TypeError', 'divisor must be a scalar')
        b, btc = B.v[0], B.tc
    else:
        b, btc = B, tcnum(B)
    tc = promote(promote(A.tc, btc), 'd')
    if b == 0:
        raise Refuse('ZeroDivisionError', 'division by zero')
    return MM(tc, A.m, A.n, [conv(a, tc) / conv(b, tc) for a in A.v])


def rem(A, B):
    """A % c, c a number or a 1x1 matrix: the remainder Python's % gives for every element
    (the sign follows the divisor); real types only"""
    if isinstance(B, MM):
        if B.size != (1, 1):
            raise Refuse('TypeError', 'the second operand of % must be a scalar')
        b, btc = B.v[0], B.tc
    else:
        b, btc = B, tcnum(B)
    tc = promote(A.tc, btc)
    if tc == 'z':
        raise Refuse('TypeError', 'complex modulo')
    if b == 0:
        raise Refuse('ZeroDivisionError', 'division by zero')
    return MM(tc, A.m, A.n, [conv(a, tc) % conv(b, tc) for a in A.v])


def powm(A, e):
    """A ** e elementwise for a number e; the result is at least of type 'd'.  Returns the list of
    values as Python computes them (inexact: compared with a tolerance by the caller)."""
    import math
    tc = promote(promote(A.tc, tcnum(e)), 'd')
    out = []
    for a in A.v:
        if tc == 'd':
            a, ee = float(a), float(e)
            if (a == 0.0 and ee < 0.0) or (a < 0.0 and 0.0 < ee < 1.0):
                raise Refuse('ValueError', 'domain error')
            out.append(math.pow(a, ee))
        else:
            a, ee = complex(a), complex(e)
            if a == 0 and (ee.imag != 0.0 or ee.real < 0.0):
                raise Refuse('ValueError', 'domain error')
            out.append(a ** ee if a != 0 else (None if ee == 0 else 0j))      # 0j ** 0: whatever the C library's cpow says (glibc: nan)
    return tc, out


def efun(name, A):
    """exp, log, sqrt, cos, sin of a matrix (elementwise) or of a number: (typecode or None, values)"""
    import math
    import cmath
    if isinstance(A, MM):
        vals, tc = A.v, ('z' if A.tc == 'z' else 'd')
    else:
        vals, tc = [A], ('z' if tcnum(A) == 'z' else 'd')
    if tc == 'd':
        vals = [float(v) for v in vals]
        if name == 'log' and any(v <= 0.0 for v in vals):
            raise Refuse('ValueError', 'domain error')
        if name == 'sqrt' and any(v < 0.0 for v in vals):
            raise Refuse('ValueError', 'domain error')
        out = [getattr(math, name)(v) for v in vals]
    else:
        vals = [complex(v) for v in vals]
        if name == 'log' and any(v == 0 for v in vals):
            raise Refuse('ValueError', 'domain error')
        out = [getattr(cmath, name)(v) for v in vals]
    return tc, out


def inplace(A, opn, B):
    """A op= B: allowed exactly when neither type nor size of A would change; modifies A"""
    if opn == '+=':
        R = add(A, B, 1)
    elif opn == '-=':
        R = add(A, B, -1)
    elif opn == '*=':
        if isinstance(B, MM) and B.size != (1, 1):
            raise Refuse('TypeError', 'in-place matrix product')
        if isinstance(B, MM):
            tc = promote(A.tc, B.tc)
            R = MM(tc, A.m, A.n, [conv(a, tc) * conv(B.v[0], tc) for a in A.v])
        else:
            R = mul(A, B)
    elif opn == '/=':
        R = div(A, B)
    elif opn == '%=':
        R = rem(A, B)
    else:
        raise ValueError(opn)
    if R.tc != A.tc or R.size != A.size:
        raise Refuse('TypeError', 'in-place operation would change the type or size')
    A.v[:] = R.v


def neg(A):
    return MM(A.tc, A.m, A.n, [-a for a in A.v])


def absm(A):
    tc = 'd' if A.tc == 'z' else A.tc
    return MM(tc, A.m, A.n, [abs(a) for a in A.v])


def trans(A, conj=False):
    out = []
    for j in range(A.m):
        for i in range(A.n):
            x = A.get(j, i)
            out.append(x.conjugate() if (conj and A.tc == 'z') else x)
    return MM(A.tc, A.n, A.m, out)


def real(A):
    if A.tc == 'z':
        return MM('d', A.m, A.n, [a.real for a in A.v])
    return A.copy()


def imag(A):
    if A.tc == 'z':
        return MM('d', A.m, A.n, [a.imag for a in A.v])
    return MM(A.tc, A.m, A.n, [0] * len(A.v))


def emul(A, B):
    """cvxopt.mul: elementwise product; a 1x1 dense matrix is a scalar if the other argument is not 1x1"""
    tc = promote(A.tc, B.tc)
    if A.size == B.size:
        return MM(tc, A.m, A.n, [conv(a, tc) * conv(b, tc) for a, b in zip(A.v, B.v)])
    if B.size == (1, 1):
        return MM(tc, A.m, A.n, [conv(a, tc) * conv(B.v[0], tc) for a in A.v])
    if A.size == (1, 1):
        return MM(tc, B.m, B.n, [conv(A.v[0], tc) * conv(b, tc) for b in B.v])
    raise Refuse('TypeError', 'incompatible dimensions')


def reshape(A, m, n):
    if m * n != A.m * A.n:
        raise Refuse('TypeError', 'wrong size')
    return MM(A.tc, m, n, A.v)


def convert(A, tc):
    if ORDER[tc] < ORDER[A.tc]:
        raise Refuse('TypeError', 'illegal type conversion')
    return MM(tc, A.m, A.n, A.v)


def set_size(A, m, n):
    if not (0 <= m < 2 ** 31 and 0 <= n < 2 ** 31):
        raise Refuse('TypeError', 'dimensions out of range')
    if m < 0 or n < 0 or m * n != A.m * A.n:
        raise Refuse('TypeError', 'number of elements cannot change')
    A.m, A.n = m, n


def ediv(A, B):
    """cvxopt.div(A, B): elementwise quotient (true division), a 1x1 matrix is a scalar"""
    tc = promote(promote(A.tc, B.tc), 'd')
    if A.size == B.size:
        av, bv, size = A.v, B.v, A.size
    elif B.size == (1, 1):
        av, bv, size = A.v, [B.v[0]] * len(A.v), A.size
    elif A.size == (1, 1):
        av, bv, size = [A.v[0]] * len(B.v), B.v, B.size
    else:
        raise Refuse('TypeError', 'incompatible dimensions')
    if any(b == 0 for b in bv):
        raise Refuse('ZeroDivisionError', 'division by zero')
    return MM(tc, size[0], size[1], [conv(a, tc) / conv(b, tc) for a, b in zip(av, bv)])


def eminmax(A, B, which):
    """cvxopt.max / cvxopt.min of two matrices (a 1x1 matrix is a scalar); no ordering for complex"""
    if A.tc == 'z' or B.tc == 'z':
        raise Refuse('TypeError', 'ordering not defined for complex numbers')
    tc = promote(A.tc, B.tc)
    if A.size == B.size:
        av, bv, size = A.v, B.v, A.size
    elif B.size == (1, 1):
        av, bv, size = A.v, [B.v[0]] * len(A.v), A.size
    elif A.size == (1, 1):
        av, bv, size = [A.v[0]] * len(B.v), B.v, B.size
    else:
        raise Refuse('TypeError', 'incompatible dimensions')
    f = max if which == 'max' else min
    return MM(tc, size[0], size[1], [f(conv(a, tc), conv(b, tc)) for a, b in zip(av, bv)])


def vstack(A, B):
    """matrix([A, B]): one block column, A on top of B"""
    if A.n != B.n:
        raise Refuse('TypeError', 'incompatible dimensions of subblocks')
    tc = promote(A.tc, B.tc)
    out = []
    for j in range(A.n):
        out += [A.get(i, j) for i in range(A.m)] + [B.get(i, j) for i in range(B.m)]
    return MM(tc, A.m + B.m, A.n, out)


def hstack(A, B):
    """matrix([[A], [B]]): two block columns side by side"""
    if A.m != B.m:
        raise Refuse('TypeError', 'incompatible dimensions of subblocks')
    tc = promote(A.tc, B.tc)
    return MM(tc, A.m, A.n + B.n, list(A.v) + list(B.v))


def blocks(cols, tc=None, size=None):
    """matrix([[B11, B21, ...], [B12, ...], ...][, size][, tc]): a list of block columns; numbers are
    1x1 blocks; all blocks of a block column have the same number of columns, all block columns the
    same number of rows"""
    t = 'i'
    norm = []
    for col in cols:
        c2 = []
        for b in col:
            if not isinstance(b, MM):
                b = MM(tcnum(b), 1, 1, [b])
            t = promote(t, b.tc)
            c2.append(b)
        norm.append(c2)
    if tc is None:
        tc = t
    if ORDER[t] > ORDER[tc]:
        raise Refuse('TypeError', 'illegal type conversion')
    out = []
    rows = None
    ncols = 0
    for col in norm:
        w = col[0].n
        if any(b.n != w for b in col):
            raise Refuse('TypeError', 'incompatible dimensions of subblocks')
        h = sum(b.m for b in col)
        if rows is None:
            rows = h
        elif h != rows:
            raise Refuse('TypeError', 'incompatible dimensions of subblocks')
        for j in range(w):
            for b in col:
                out += [b.get(i, j) for i in range(b.m)]
        ncols += w
    if size is not None:
        if size[0] < 0 or size[1] < 0 or size[0] * size[1] != len(out):
            raise Refuse('TypeError', 'wrong matrix dimensions')
        rows, ncols = size
    return MM(tc, rows, ncols, out)


def fromnum(x, size=None, tc=None):
    """matrix(number[, (m, n)][, tc]): a 1x1 matrix, or an m x n matrix filled with the number"""
    t = tcnum(x)
    if t == 'i' and (tc in (None, 'i')) and not (-2 ** 63 <= x < 2 ** 63):
        raise Refuse('OverflowError', 'integer does not fit the element type')
    if tc is None:
        tc = t
    if ORDER[t] > ORDER[tc]:
        raise Refuse('TypeError', 'cannot cast')
    m, n = (1, 1) if size is None else size
    if m < 0 or n < 0:
        raise Refuse('TypeError', 'dimensions must be non-negative')
    return MM(tc, m, n, [x] * (m * n))


def recast(A, size, tc):
    """matrix(A, (m, n), tc)"""
    return reshape(convert(A, tc), size[0], size[1])


def fromlist(vals, m, n, tc):
    """matrix(list, (m, n)[, tc])"""
    t = 'i'
    for x in vals:
        t = promote(t, tcnum(x))
    if tc is None:
        tc = t
    if ORDER[t] > ORDER[tc]:
        raise Refuse('TypeError', 'cannot cast')
    if len(vals) != m * n:
        raise Refuse('TypeError', 'wrong matrix dimensions')
    return MM(tc, m, n, vals)
