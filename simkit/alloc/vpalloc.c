/* Simulator-owned allocator behind the compile-time seam (seam.h).
 *
 * Observation only (DESIGN 1.3): it never fails an allocation.
 *   - keeps libc's pointer (no header), so pointers may cross into code built without the seam
 *   - 16 guard bytes (0xFD) after every block, verified on free/realloc and by vp_check_all()
 *   - fresh malloc memory and the grown tail of realloc are filled with 0xCD (deterministic
 *     "uninitialised" pattern); calloc stays zero
 *   - free: block filled with 0xDB and parked in a FIFO quarantine; poison verified on eviction
 *     and by vp_check_all() (detects writes after free; reads after free return 0xDB..)
 */
#include <stdlib.h>
#include <string.h>
#include <stdio.h>
#include <stdint.h>
#include <pthread.h>
#include <sys/mman.h>
#include <unistd.h>

#define GUARD 16
#define GUARD_BYTE 0xFD
#define FRESH_BYTE 0xCD
#define FREED_BYTE 0xDB
#define QCAP 512
#define QBYTES (8u << 20)
#define MAXV 64

typedef struct { void *p; size_t n; const char *file; int line; void *map; size_t maplen; } ent_t;

/* mode 0: guard bytes + poison + quarantine (default)
 * mode 1: electric fence, block right-aligned against an inaccessible page (overruns fault at once)
 * mode 2: electric fence, block left-aligned after an inaccessible page (underruns fault at once)
 * In modes 1/2 a freed block becomes inaccessible (use after free faults at once) and stays
 * mapped in a quarantine so that its address is not reused immediately. */
static int vp_mode = 0;
static size_t pagesz = 4096;
#define EQCAP 256
#define REDZONE 64
static ent_t equar[EQCAP];
static size_t eqhead = 0, eqlen = 0;


static ent_t *tab = NULL;
static size_t tcap = 0, tcnt = 0, ttomb = 0;
#define TOMB ((void *)1)

static ent_t quar[QCAP];
static size_t qhead = 0, qlen = 0, qbytes = 0;

static pthread_mutex_t mu = PTHREAD_MUTEX_INITIALIZER;

static unsigned long long n_malloc, n_calloc, n_realloc, n_free, n_foreign_free, n_bytes;
static int nviol = 0;
static char vtext[MAXV][256];

static void viol(const char *kind, void *p, size_t n, const char *afile, int aline,
                 const char *file, int line, size_t off)
{
    if (nviol < MAXV)
        snprintf(vtext[nviol], sizeof vtext[0],
                 "%s block=%zu bytes allocated at %s:%d detected at %s:%d offset=%zu",
                 kind, n, afile ? afile : "?", aline, file ? file : "?", line, off);
    nviol++;
    (void)p;
}

static size_t hashp(void *p) { uintptr_t x = (uintptr_t)p; x ^= x >> 17; x *= 0x9E3779B97F4A7C15ull; x ^= x >> 29; return (size_t)x; }

static void tab_grow(void)
{
    size_t ncap = tcap ? tcap * 2 : 4096, i;
    ent_t *nt = (ent_t *)calloc(ncap, sizeof(ent_t));
    if (!nt) abort();
    for (i = 0; i < tcap; i++)
        if (tab[i].p && tab[i].p != TOMB) {
            size_t h = hashp(tab[i].p) & (ncap - 1);
            while (nt[h].p) h = (h + 1) & (ncap - 1);
            nt[h] = tab[i];
        }
    free(tab); tab = nt; tcap = ncap; ttomb = 0;
}

static ent_t *tab_find(void *p)
{
    size_t h;
    if (!tcap) return NULL;
    h = hashp(p) & (tcap - 1);
    while (tab[h].p) {
        if (tab[h].p == p) return &tab[h];
        h = (h + 1) & (tcap - 1);
    }
    return NULL;
}

static void tab_put2(void *p, size_t n, const char *file, int line, void *map, size_t maplen)
{
    ent_t *e = tab_find(p);
    size_t h;
    if (e) { e->n = n; e->file = file; e->line = line; e->map = map; e->maplen = maplen; return; } /* stale entry (foreign free) */
    if ((tcnt + ttomb + 1) * 2 > tcap) tab_grow();
    h = hashp(p) & (tcap - 1);
    while (tab[h].p && tab[h].p != TOMB) h = (h + 1) & (tcap - 1);
    if (tab[h].p == TOMB) ttomb--;
    tab[h].p = p; tab[h].n = n; tab[h].file = file; tab[h].line = line; tab[h].map = map; tab[h].maplen = maplen; tcnt++;
}

static void tab_put(void *p, size_t n, const char *file, int line) { tab_put2(p, n, file, line, NULL, 0); }

/* Slot arena for the electric-fence modes: NSLOTS data pages separated by inaccessible pages, set up
 * once (mmap/mprotect are very expensive in this sandbox when many processes use them at once).
 * Blocks that fit in one page take the next slot of a ring (a freed slot is poisoned and not reused
 * before NSLOTS further allocations); larger blocks get their own mapping. */
#define NSLOTS 2048
static unsigned char *arena = NULL;
static size_t slot_next = 0;
static unsigned char slot_busy[NSLOTS];

static int arena_init(void)
{
    size_t i, len = (2 * NSLOTS + 1) * pagesz;
    unsigned char *a = (unsigned char *)mmap(NULL, len, PROT_READ | PROT_WRITE, MAP_PRIVATE | MAP_ANONYMOUS, -1, 0);
    if (a == MAP_FAILED) return -1;
    for (i = 0; i <= NSLOTS; i++) mprotect(a + 2 * i * pagesz, pagesz, PROT_NONE);
    arena = a;
    return 0;
}

static void *ef_alloc(size_t n, int zero, const char *file, int line)
{
    size_t body = ((n + 7) & ~(size_t)7) + REDZONE, pages, maplen, tries;
    unsigned char *map, *p, *page;
    if (body <= pagesz) {
        if (!arena && arena_init()) return NULL;
        for (tries = 0; tries < NSLOTS && slot_busy[slot_next % NSLOTS]; tries++) slot_next++;
        if (tries < NSLOTS) {
            size_t sl = slot_next % NSLOTS;
            slot_next++;
            slot_busy[sl] = 1;
            page = arena + (2 * sl + 1) * pagesz;
            memset(page, FRESH_BYTE, pagesz);
            if (vp_mode == 1) { p = page + pagesz - body; memset(p + body - REDZONE, GUARD_BYTE, REDZONE); }
            else p = page;
            if (zero) memset(p, 0, n);
            pthread_mutex_lock(&mu);
            tab_put2(p, n, file, line, page, 0);        /* maplen 0: arena slot */
            pthread_mutex_unlock(&mu);
            return p;
        }
    }
    pages = (body + pagesz - 1) / pagesz;
    maplen = (pages + 2) * pagesz;
    map = (unsigned char *)mmap(NULL, maplen, PROT_READ | PROT_WRITE, MAP_PRIVATE | MAP_ANONYMOUS, -1, 0);
    if (map == MAP_FAILED) return NULL;
    mprotect(map, pagesz, PROT_NONE);
    mprotect(map + (pages + 1) * pagesz, pagesz, PROT_NONE);
    if (vp_mode == 1) p = map + (pages + 1) * pagesz - body; else p = map + pagesz;
    memset(map + pagesz, FRESH_BYTE, pages * pagesz);
    if (zero) memset(p, 0, n);
    if (vp_mode == 1) memset(p + body - REDZONE, GUARD_BYTE, REDZONE);
    pthread_mutex_lock(&mu);
    tab_put2(p, n, file, line, map, maplen);
    pthread_mutex_unlock(&mu);
    return p;
}

static void ef_free(ent_t *e)
{
    ent_t old;
    unsigned char *first = (unsigned char *)e->map + (e->maplen ? pagesz : 0);
    if ((unsigned char *)e->p != first) {      /* right-aligned: check the red zone */
        size_t body = ((e->n + 7) & ~(size_t)7), i;
        unsigned char *g = (unsigned char *)e->p + body;
        for (i = 0; i < REDZONE; i++)
            if (g[i] != GUARD_BYTE) { viol("guard-overrun", e->p, e->n, e->file, e->line, "vp_free(efence)", 0, i); break; }
    }
    if (!e->maplen) {                          /* arena slot: poison, release to the ring */
        size_t sl = (((unsigned char *)e->map - arena) / pagesz - 1) / 2;
        memset(e->map, FREED_BYTE, pagesz);
        slot_busy[sl] = 0;
        return;
    }
    mprotect(e->map, e->maplen, PROT_NONE);
    if (eqlen == EQCAP) { old = equar[eqhead]; munmap(old.map, old.maplen); eqhead = (eqhead + 1) % EQCAP; eqlen--; }
    equar[(eqhead + eqlen) % EQCAP] = *e; eqlen++;
}

static void tab_del(ent_t *e) { e->p = TOMB; tcnt--; ttomb++; }

static size_t guard_bad(const unsigned char *g)
{
    size_t i;
    for (i = 0; i < GUARD; i++) if (g[i] != GUARD_BYTE) return i + 1;
    return 0;
}

static size_t poison_bad(const unsigned char *b, size_t n)
{
    size_t i;
    for (i = 0; i < n; i++) if (b[i] != FREED_BYTE) return i + 1;
    return 0;
}

static void quar_evict_one(const char *file, int line)
{
    ent_t e = quar[qhead];
    size_t bad = poison_bad((unsigned char *)e.p, e.n + GUARD);
    if (bad) viol("write-after-free", e.p, e.n, e.file, e.line, file, line, bad - 1);
    free(e.p);
    qhead = (qhead + 1) % QCAP; qlen--; qbytes -= e.n + GUARD;
}

static void quar_push(void *p, size_t n, const char *afile, int aline, const char *file, int line)
{
    while (qlen == QCAP || (qlen && qbytes + n + GUARD > QBYTES)) quar_evict_one(file, line);
    memset(p, FREED_BYTE, n + GUARD);
    quar[(qhead + qlen) % QCAP].p = p;
    quar[(qhead + qlen) % QCAP].n = n;
    quar[(qhead + qlen) % QCAP].file = afile;
    quar[(qhead + qlen) % QCAP].line = aline;
    qlen++; qbytes += n + GUARD;
}

void *vp_malloc(size_t n, const char *file, int line)
{
    unsigned char *p;
    if (n > (size_t)-1 - GUARD) return NULL;
    if (vp_mode) { p = (unsigned char *)ef_alloc(n, 0, file, line); if (p) { pthread_mutex_lock(&mu); n_malloc++; n_bytes += n; pthread_mutex_unlock(&mu); } return p; }
    p = (unsigned char *)malloc(n + GUARD);
    if (!p) return NULL;
    memset(p, FRESH_BYTE, n);
    memset(p + n, GUARD_BYTE, GUARD);
    pthread_mutex_lock(&mu);
    tab_put(p, n, file, line); n_malloc++; n_bytes += n;
    pthread_mutex_unlock(&mu);
    return p;
}

void *vp_calloc(size_t k, size_t n, const char *file, int line)
{
    unsigned char *p;
    size_t t;
    if (n && k > ((size_t)-1 - GUARD) / n) return NULL;
    t = k * n;
    if (vp_mode) { p = (unsigned char *)ef_alloc(t, 1, file, line); if (p) { pthread_mutex_lock(&mu); n_calloc++; n_bytes += t; pthread_mutex_unlock(&mu); } return p; }
    p = (unsigned char *)malloc(t + GUARD);
    if (!p) return NULL;
    memset(p, 0, t);
    memset(p + t, GUARD_BYTE, GUARD);
    pthread_mutex_lock(&mu);
    tab_put(p, t, file, line); n_calloc++; n_bytes += t;
    pthread_mutex_unlock(&mu);
    return p;
}

void vp_free(void *p, const char *file, int line)
{
    ent_t *e;
    if (!p) return;
    pthread_mutex_lock(&mu);
    e = tab_find(p);
    if (!e) { n_foreign_free++; pthread_mutex_unlock(&mu); free(p); return; }
    if (e->map) { ent_t c = *e; tab_del(e); n_free++; ef_free(&c); pthread_mutex_unlock(&mu); return; }
    {
        size_t n = e->n, bad = guard_bad((unsigned char *)p + n);
        const char *af = e->file; int al = e->line;
        if (bad) viol("guard-overrun", p, n, af, al, file, line, bad - 1);
        tab_del(e); n_free++;
        quar_push(p, n, af, al, file, line);
    }
    pthread_mutex_unlock(&mu);
}

void *vp_realloc(void *p, size_t n, const char *file, int line)
{
    ent_t *e;
    unsigned char *q;
    size_t old;
    if (!p) return vp_malloc(n, file, line);
    pthread_mutex_lock(&mu);
    e = tab_find(p);
    pthread_mutex_unlock(&mu);
    if (!e) return realloc(p, n);
    old = e->n;
    /* always move: a stale pointer kept across realloc then hits poisoned memory */
    q = (unsigned char *)vp_malloc(n, file, line);
    if (!q) return NULL;
    memcpy(q, p, old < n ? old : n);
    pthread_mutex_lock(&mu); n_realloc++; n_malloc--; pthread_mutex_unlock(&mu);
    vp_free(p, file, line);
    pthread_mutex_lock(&mu); n_free--; pthread_mutex_unlock(&mu);
    return q;
}

/* ---- interface for the simulator (ctypes) ---- */

int vp_check_all(void)
{
    size_t i, before = (size_t)nviol;
    pthread_mutex_lock(&mu);
    for (i = 0; i < tcap; i++)
        if (tab[i].p && tab[i].p != TOMB && !tab[i].map) {
            size_t bad = guard_bad((unsigned char *)tab[i].p + tab[i].n);
            if (bad) {
                viol("guard-overrun", tab[i].p, tab[i].n, tab[i].file, tab[i].line, "vp_check_all", 0, bad - 1);
                memset((unsigned char *)tab[i].p + tab[i].n, GUARD_BYTE, GUARD); /* report once */
            }
        }
    for (i = 0; i < qlen; i++) {
        ent_t *e = &quar[(qhead + i) % QCAP];
        size_t bad = poison_bad((unsigned char *)e->p, e->n + GUARD);
        if (bad) {
            viol("write-after-free", e->p, e->n, e->file, e->line, "vp_check_all", 0, bad - 1);
            memset(e->p, FREED_BYTE, e->n + GUARD);
        }
    }
    pthread_mutex_unlock(&mu);
    return nviol - (int)before;
}

void vp_set_mode(int m) { long ps = sysconf(_SC_PAGESIZE); if (ps > 0 && !arena) pagesz = (size_t)ps; vp_mode = m; }
int vp_arena_init(void) { long ps = sysconf(_SC_PAGESIZE); if (ps > 0 && !arena) pagesz = (size_t)ps; return arena ? 0 : arena_init(); }
int vp_get_mode(void) { return vp_mode; }
int vp_violations(void) { return nviol; }
const char *vp_violation_text(int i) { return (i >= 0 && i < nviol && i < MAXV) ? vtext[i] : ""; }
void vp_reset_violations(void) { nviol = 0; }

void vp_stats(unsigned long long *out)
{
    out[0] = n_malloc; out[1] = n_calloc; out[2] = n_realloc; out[3] = n_free;
    out[4] = n_foreign_free; out[5] = n_bytes; out[6] = tcnt; out[7] = qlen;
}

/* churn: allocate and free blocks of the given size so that recently freed storage
 * leaves the quarantine and is reused by libc (used by lifesim's "allocator churn" op) */
void vp_flush_quarantine(void)
{
    pthread_mutex_lock(&mu);
    while (qlen) quar_evict_one("vp_flush_quarantine", 0);
    pthread_mutex_unlock(&mu);
}
