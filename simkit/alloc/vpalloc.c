/* Simulator-owned allocator behind the compile-time seam (seam.h).
 *
 * Observation only (DESIGN 1.3): it never fails an allocation.
 *   - keeps libc's pointer (no header), so pointers may cross into code built without the seam
 *   - 16 guard bytes (0xFD) after every block, verified on free/realloc and by vp_check_all()
 *   - fresh malloc memory and the grown tail of realloc are filled with 0xCD (deterministic
 *     "uninitialised" pattern); calloc stays zero
 *   - free: block filled with 0xDB and parked in a FIFO quarantine; poison verified on eviction
 *     and by vp_check_all() (detects writes after free; reads after free return 0xDB..)
 */
#include <stdlib.h>
#include <string.h>
#include <stdio.h>
#include <stdint.h>
#include <pthread.h>

#define GUARD 16
#define GUARD_BYTE 0xFD
#define FRESH_BYTE 0xCD
#define FREED_BYTE 0xDB
#define QCAP 512
#define QBYTES (8u << 20)
#define MAXV 64

typedef struct { void *p; size_t n; const char *file; int line; } ent_t;

static ent_t *tab = NULL;
static size_t tcap = 0, tcnt = 0, ttomb = 0;
#define TOMB ((void *)1)

static ent_t quar[QCAP];
static size_t qhead = 0, qlen = 0, qbytes = 0;

static pthread_mutex_t mu = PTHREAD_MUTEX_INITIALIZER;

static unsigned long long n_malloc, n_calloc, n_realloc, n_free, n_foreign_free, n_bytes;
static int nviol = 0;
static char vtext[MAXV][256];

static void viol(const char *kind, void *p, size_t n, const char *afile, int aline,
                 const char *file, int line, size_t off)
{
    if (nviol < MAXV)
        snprintf(vtext[nviol], sizeof vtext[0],
                 "%s block=%zu bytes allocated at %s:%d detected at %s:%d offset=%zu",
                 kind, n, afile ? afile : "?", aline, file ? file : "?", line, off);
    nviol++;
    (void)p;
}

static size_t hashp(void *p) { uintptr_t x = (uintptr_t)p; x ^= x >> 17; x *= 0x9E3779B97F4A7C15ull; x ^= x >> 29; return (size_t)x; }

static void tab_grow(void)
{
    size_t ncap = tcap ? tcap * 2 : 4096, i;
    ent_t *nt = (ent_t *)calloc(ncap, sizeof(ent_t));
    if (!nt) abort();
    for (i = 0; i < tcap; i++)
        if (tab[i].p && tab[i].p != TOMB) {
            size_t h = hashp(tab[i].p) & (ncap - 1);
            while (nt[h].p) h = (h + 1) & (ncap - 1);
            nt[h] = tab[i];
        }
    free(tab); tab = nt; tcap = ncap; ttomb = 0;
}

static ent_t *tab_find(void *p)
{
    size_t h;
    if (!tcap) return NULL;
    h = hashp(p) & (tcap - 1);
    while (tab[h].p) {
        if (tab[h].p == p) return &tab[h];
        h = (h + 1) & (tcap - 1);
    }
    return NULL;
}

static void tab_put(void *p, size_t n, const char *file, int line)
{
    ent_t *e = tab_find(p);
    size_t h;
    if (e) { e->n = n; e->file = file; e->line = line; return; } /* stale entry (foreign free) */
    if ((tcnt + ttomb + 1) * 2 > tcap) tab_grow();
    h = hashp(p) & (tcap - 1);
    while (tab[h].p && tab[h].p != TOMB) h = (h + 1) & (tcap - 1);
    if (tab[h].p == TOMB) ttomb--;
    tab[h].p = p; tab[h].n = n; tab[h].file = file; tab[h].line = line; tcnt++;
}

static void tab_del(ent_t *e) { e->p = TOMB; tcnt--; ttomb++; }

static size_t guard_bad(const unsigned char *g)
{
    size_t i;
    for (i = 0; i < GUARD; i++) if (g[i] != GUARD_BYTE) return i + 1;
    return 0;
}

static size_t poison_bad(const unsigned char *b, size_t n)
{
    size_t i;
    for (i = 0; i < n; i++) if (b[i] != FREED_BYTE) return i + 1;
    return 0;
}

static void quar_evict_one(const char *file, int line)
{
    ent_t e = quar[qhead];
    size_t bad = poison_bad((unsigned char *)e.p, e.n + GUARD);
    if (bad) viol("write-after-free", e.p, e.n, e.file, e.line, file, line, bad - 1);
    free(e.p);
    qhead = (qhead + 1) % QCAP; qlen--; qbytes -= e.n + GUARD;
}

static void quar_push(void *p, size_t n, const char *afile, int aline, const char *file, int line)
{
    while (qlen == QCAP || (qlen && qbytes + n + GUARD > QBYTES)) quar_evict_one(file, line);
    memset(p, FREED_BYTE, n + GUARD);
    quar[(qhead + qlen) % QCAP].p = p;
    quar[(qhead + qlen) % QCAP].n = n;
    quar[(qhead + qlen) % QCAP].file = afile;
    quar[(qhead + qlen) % QCAP].line = aline;
    qlen++; qbytes += n + GUARD;
}

void *vp_malloc(size_t n, const char *file, int line)
{
    unsigned char *p;
    if (n > (size_t)-1 - GUARD) return NULL;
    p = (unsigned char *)malloc(n + GUARD);
    if (!p) return NULL;
    memset(p, FRESH_BYTE, n);
    memset(p + n, GUARD_BYTE, GUARD);
    pthread_mutex_lock(&mu);
    tab_put(p, n, file, line); n_malloc++; n_bytes += n;
    pthread_mutex_unlock(&mu);
    return p;
}

void *vp_calloc(size_t k, size_t n, const char *file, int line)
{
    unsigned char *p;
    size_t t;
    if (n && k > ((size_t)-1 - GUARD) / n) return NULL;
    t = k * n;
    p = (unsigned char *)malloc(t + GUARD);
    if (!p) return NULL;
    memset(p, 0, t);
    memset(p + t, GUARD_BYTE, GUARD);
    pthread_mutex_lock(&mu);
    tab_put(p, t, file, line); n_calloc++; n_bytes += t;
    pthread_mutex_unlock(&mu);
    return p;
}

void vp_free(void *p, const char *file, int line)
{
    ent_t *e;
    if (!p) return;
    pthread_mutex_lock(&mu);
    e = tab_find(p);
    if (!e) { n_foreign_free++; pthread_mutex_unlock(&mu); free(p); return; }
    {
        size_t n = e->n, bad = guard_bad((unsigned char *)p + n);
        const char *af = e->file; int al = e->line;
        if (bad) viol("guard-overrun", p, n, af, al, file, line, bad - 1);
        tab_del(e); n_free++;
        quar_push(p, n, af, al, file, line);
    }
    pthread_mutex_unlock(&mu);
}

void *vp_realloc(void *p, size_t n, const char *file, int line)
{
    ent_t *e;
    unsigned char *q;
    size_t old;
    if (!p) return vp_malloc(n, file, line);
    pthread_mutex_lock(&mu);
    e = tab_find(p);
    pthread_mutex_unlock(&mu);
    if (!e) return realloc(p, n);
    old = e->n;
    /* always move: a stale pointer kept across realloc then hits poisoned memory */
    q = (unsigned char *)vp_malloc(n, file, line);
    if (!q) return NULL;
    memcpy(q, p, old < n ? old : n);
    pthread_mutex_lock(&mu); n_realloc++; n_malloc--; pthread_mutex_unlock(&mu);
    vp_free(p, file, line);
    pthread_mutex_lock(&mu); n_free--; pthread_mutex_unlock(&mu);
    return q;
}

/* ---- interface for the simulator (ctypes) ---- */

int vp_check_all(void)
{
    size_t i, before = (size_t)nviol;
    pthread_mutex_lock(&mu);
    for (i = 0; i < tcap; i++)
        if (tab[i].p && tab[i].p != TOMB) {
            size_t bad = guard_bad((unsigned char *)tab[i].p + tab[i].n);
            if (bad) {
                viol("guard-overrun", tab[i].p, tab[i].n, tab[i].file, tab[i].line, "vp_check_all", 0, bad - 1);
                memset((unsigned char *)tab[i].p + tab[i].n, GUARD_BYTE, GUARD); /* report once */
            }
        }
    for (i = 0; i < qlen; i++) {
        ent_t *e = &quar[(qhead + i) % QCAP];
        size_t bad = poison_bad((unsigned char *)e->p, e->n + GUARD);
        if (bad) {
            viol("write-after-free", e->p, e->n, e->file, e->line, "vp_check_all", 0, bad - 1);
            memset(e->p, FREED_BYTE, e->n + GUARD);
        }
    }
    pthread_mutex_unlock(&mu);
    return nviol - (int)before;
}

int vp_violations(void) { return nviol; }
const char *vp_violation_text(int i) { return (i >= 0 && i < nviol && i < MAXV) ? vtext[i] : ""; }
void vp_reset_violations(void) { nviol = 0; }

void vp_stats(unsigned long long *out)
{
    out[0] = n_malloc; out[1] = n_calloc; out[2] = n_realloc; out[3] = n_free;
    out[4] = n_foreign_free; out[5] = n_bytes; out[6] = tcnt; out[7] = qlen;
}

/* churn: allocate and free blocks of the given size so that recently freed storage
 * leaves the quarantine and is reused by libc (used by lifesim's "allocator churn" op) */
void vp_flush_quarantine(void)
{
    pthread_mutex_lock(&mu);
    while (qlen) quar_evict_one("vp_flush_quarantine", 0);
    pthread_mutex_unlock(&mu);
}
