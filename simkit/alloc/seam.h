/* Allocator seam, applied from outside with `gcc -include seam.h` (no change to /repo).
 * After <stdlib.h>/<string.h> have been seen (include guards make the later includes no-ops)
 * the libc allocator names become function-like macros that route to the simulator's
 * allocator in libvpalloc.so.  Only call syntax `malloc(` is rewritten. */
#ifndef VP_SEAM_H
#define VP_SEAM_H
#include <stdlib.h>
#include <string.h>
#include <stddef.h>
void *vp_malloc(size_t n, const char *file, int line);
void *vp_calloc(size_t k, size_t n, const char *file, int line);
void *vp_realloc(void *p, size_t n, const char *file, int line);
void  vp_free(void *p, const char *file, int line);
#define malloc(n)     vp_malloc((n), __FILE__, __LINE__)
#define calloc(k, n)  vp_calloc((k), (n), __FILE__, __LINE__)
#define realloc(p, n) vp_realloc((p), (n), __FILE__, __LINE__)
#define free(p)       vp_free((p), __FILE__, __LINE__)
#endif
