"""simkit core: seed discipline, event log/digest, forked execution with crash journal,
batch driver, minimisation, replay files, known findings, evidence (DESIGN 2.2-2.10)."""
import faulthandler
import hashlib
import importlib
import json
import os
import pickle
import select
import signal
import subprocess
import sys
import time
import traceback
from concurrent.futures import ProcessPoolExecutor
import multiprocessing

VERIF = os.path.dirname(os.path.dirname(os.path.abspath(__file__)))
KNOWN = os.path.join(VERIF, 'known_findings.jsonl')
# self-tests against deliberately broken trees redirect these, so that they never overwrite the
# evidence and replay files that describe /repo itself
REPLAYS = os.environ.get('VERIF_REPLAY_DIR') or os.path.join(VERIF, 'replays')
EVIDENCE = os.environ.get('VERIF_EVIDENCE_DIR') or os.path.join(VERIF, 'evidence')

ENGINES = {'C07': 'kktsim', 'C09': 'isosim', 'C10': 'faultsim', 'C13': 'opsim',
           'C15': 'densesim', 'C16': 'sparsesim', 'C20': 'lifesim'}


# ----------------------------------------------------------------------------- seeds, logs

def H(*parts):
    """Seed derivation: one integer decides everything (DESIGN 2.2)."""
    h = hashlib.sha256(repr(parts).encode()).digest()
    return int.from_bytes(h[:8], 'big')


def sha(obj):
    return hashlib.sha256(repr(obj).encode()).hexdigest()[:16]


class Log:
    """Event log of one run; its SHA-256 is the run digest.  Never draws from a PRNG, never
    reads a clock."""
    __slots__ = ('h', 'n', 'keep', 'events')

    def __init__(self, keep=False):
        self.h = hashlib.sha256()
        self.n = 0
        self.keep = keep
        self.events = []

    def add(self, *ev):
        self.h.update(repr(ev).encode())
        self.h.update(b'\n')
        self.n += 1
        if self.keep:
            self.events.append(ev)

    def digest(self):
        return self.h.hexdigest()[:16]


class HarnessError(Exception):
    pass


# ----------------------------------------------------------------------------- forked execution

class Journal:
    """Crash journal: `begin` is written before an operation is applied to cvxopt and `end`
    after; if the process dies in between the parent reads which case/op was in flight."""

    def __init__(self, path):
        self.path = path
        self.fd = None

    def _open(self):
        if self.fd is None:
            self.fd = os.open(self.path, os.O_WRONLY | os.O_CREAT | os.O_TRUNC, 0o600)

    def begin_case(self, case):
        self._open()
        os.ftruncate(self.fd, 0)
        os.lseek(self.fd, 0, os.SEEK_SET)
        os.write(self.fd, (json.dumps(case) + '\n').encode())

    def log_op(self, i, op):
        """incremental cases (generate-while-executing): the operation itself is journalled
        before it is applied"""
        self._open()
        os.write(self.fd, ('O' + json.dumps(op) + '\n').encode())
        os.write(self.fd, b'B%d\n' % i)

    def begin_op(self, i):
        self._open()
        os.write(self.fd, b'B%d\n' % i)

    def end_op(self, i):
        self._open()
        os.write(self.fd, b'E%d\n' % i)

    def end_case(self):
        if self.fd is not None:
            os.ftruncate(self.fd, 0)
            os.lseek(self.fd, 0, os.SEEK_SET)

    @staticmethod
    def read(path):
        try:
            data = open(path, 'rb').read().decode()
        except OSError:
            return None
        if not data.strip():
            return None
        lines = data.strip().split('\n')
        try:
            case = json.loads(lines[0])
        except ValueError:
            return None
        inflight = None
        ops = []
        for ln in lines[1:]:
            if ln.startswith('O'):
                try:
                    ops.append(json.loads(ln[1:]))
                except ValueError:
                    pass
            elif ln.startswith('B'):
                inflight = int(ln[1:])
            elif ln.startswith('E'):
                inflight = None
        if ops and isinstance(case, dict) and not case.get('ops'):
            case['ops'] = ops
        return {'case': case, 'inflight_op': inflight}


class NullJournal:
    def begin_case(self, case): pass
    def log_op(self, i, op): pass
    def begin_op(self, i): pass
    def end_op(self, i): pass
    def end_case(self): pass


_CRASH_SIGS = {signal.SIGSEGV: 'SIGSEGV', signal.SIGFPE: 'SIGFPE', signal.SIGBUS: 'SIGBUS',
               signal.SIGABRT: 'SIGABRT', signal.SIGILL: 'SIGILL'}


def in_fork(fn, args=(), timeout=120.0, journal_path=None):
    """Run fn(*args) in a forked child.  Returns (kind, value):
    ('ok', result) | ('exc', traceback text) | ('crash', {'signal':..,'journal':..}) | ('timeout', None)"""
    r, w = os.pipe()
    sys.stdout.flush(); sys.stderr.flush()
    pid = os.fork()
    if pid == 0:
        code = 0
        try:
            os.close(r)
            try:
                res = ('ok', fn(*args))
            except BaseException:
                res = ('exc', traceback.format_exc())
            data = pickle.dumps(res)
            mv = memoryview(data)
            while mv:
                n = os.write(w, mv)
                mv = mv[n:]
            os.close(w)
        except BaseException:
            code = 3
        finally:
            os._exit(code)
    os.close(w)
    chunks = []
    deadline = time.monotonic() + timeout
    timed_out = False
    while True:
        left = deadline - time.monotonic()
        if left <= 0:
            timed_out = True
            break
        rl, _, _ = select.select([r], [], [], min(left, 1.0))
        if rl:
            b = os.read(r, 1 << 16)
            if not b:
                break
            chunks.append(b)
    os.close(r)
    if timed_out:
        try:
            os.kill(pid, signal.SIGKILL)
        except OSError:
            pass
        os.waitpid(pid, 0)
        return ('timeout', None)
    _, st = os.waitpid(pid, 0)
    if os.WIFSIGNALED(st):
        sig = os.WTERMSIG(st)
        j = Journal.read(journal_path) if journal_path else None
        return ('crash', {'signal': _CRASH_SIGS.get(sig, 'signal %d' % sig), 'journal': j})
    data = b''.join(chunks)
    if not data:
        j = Journal.read(journal_path) if journal_path else None
        return ('crash', {'signal': 'exit %d without result' % os.WEXITSTATUS(st), 'journal': j})
    return pickle.loads(data)


# ----------------------------------------------------------------------------- minimisation

def ddmin(items, pred, budget=400):
    """Classic delta debugging over a list: smallest sublist (order kept) for which pred holds.
    pred(list)->bool.  `budget` bounds the number of pred evaluations."""
    items = list(items)
    n = 2
    calls = [0]

    def test(x):
        calls[0] += 1
        return pred(x)

    while len(items) >= 2 and calls[0] < budget:
        chunk = max(1, len(items) // n)
        subsets = [items[i:i + chunk] for i in range(0, len(items), chunk)]
        reduced = False
        for i in range(len(subsets)):
            comp = [x for j, s in enumerate(subsets) if j != i for x in s]
            if comp and calls[0] < budget and test(comp):
                items = comp
                n = max(n - 1, 2)
                reduced = True
                break
        if not reduced:
            if chunk == 1:
                break
            n = min(n * 2, len(items))
    if len(items) == 1 and calls[0] < budget and test([]):
        return []
    return items


# ----------------------------------------------------------------------------- known findings

def load_known(prop):
    out = []
    if os.path.exists(KNOWN):
        for ln in open(KNOWN):
            ln = ln.strip()
            if not ln or ln.startswith('#'):
                continue
            e = json.loads(ln)
            if e.get('property') == prop and e.get('status') == 'known':
                out.append(e)
    return out


def match_known(known, sig):
    for e in known:
        if all(str(sig.get(k)) == str(v) for k, v in e['match'].items()):
            return e
    return None


# ----------------------------------------------------------------------------- batch driver

_W = {}


def _worker_init(engine_name, scratch):
    faulthandler.enable()
    _W['engine'] = importlib.import_module('engines.' + engine_name)
    _W['scratch'] = scratch
    if hasattr(_W['engine'], 'warmup'):
        _W['engine'].warmup()


def _unit_entry(seed, tier, r, jpath):
    eng = _W['engine']
    if getattr(eng, 'CRASHES_ARE_VERDICTS', False):
        faulthandler.disable()      # the journal, not a traceback on stderr, reports the crash
    jr = Journal(jpath)
    return eng.run_unit(seed, tier, r, jr)


def _worker_unit(args):
    seed, tier, r, timeout = args
    jpath = os.path.join(_W['scratch'], 'journal.%d' % os.getpid())
    try:
        os.unlink(jpath)
    except OSError:
        pass
    t0 = time.monotonic()
    kind, val = in_fork(_unit_entry, (seed, tier, r, jpath), timeout=timeout, journal_path=jpath)
    return r, seed, kind, val, time.monotonic() - t0


def execute_case(engine, case, scratch, timeout=120.0):
    """Execute one explicit case in a forked child of this process; normalise to
    {'violation': None|{...}, 'digest': str, 'harness': None|str}.  A crash of the interpreter
    inside an operation is a violation (DESIGN 2.6)."""
    jpath = os.path.join(scratch, 'journal.x%d' % os.getpid())
    try:
        os.unlink(jpath)
    except OSError:
        pass

    def go():
        if getattr(engine, 'CRASHES_ARE_VERDICTS', False):
            faulthandler.disable()
        jr = Journal(jpath)
        jr.begin_case(case)
        return engine.execute(case, jr)

    kind, val = in_fork(go, (), timeout=timeout, journal_path=jpath)
    if kind == 'ok':
        return {'violation': val.get('violation'), 'digest': val.get('digest'), 'harness': None,
                'stats': val.get('stats', {})}
    if kind == 'crash':
        j = val.get('journal') or {}
        v = crash_violation(engine, val['signal'], j.get('inflight_op'), case)
        return {'violation': v, 'digest': 'crash', 'harness': None, 'stats': {}}
    if kind == 'timeout':
        return {'violation': None, 'digest': None, 'harness': 'timeout', 'stats': {}}
    return {'violation': None, 'digest': None, 'harness': val, 'stats': {}}


def crash_violation(engine, signame, inflight, case):
    opname = None
    ops = case.get('ops') if isinstance(case, dict) else None
    if ops is not None and inflight is not None and inflight < len(ops):
        op = ops[inflight]
        opname = op[0] if isinstance(op, (list, tuple)) else op.get('op')
    sig = {'oracle': 'interpreter-crash', 'signal': signame, 'op': opname}
    if hasattr(engine, 'crash_sig'):
        sig.update(engine.crash_sig(case, inflight) or {})
    opname = sig.get('op')
    return {'oracle': 'interpreter-crash', 'klass': 'interpreter-crash:%s:%s' % (signame, opname),
            'sig': sig, 'detail': 'interpreter died with %s in operation #%s (%s)' % (signame, inflight, opname)}


def run_check(prop, tier, seed=None):
    engine_name = ENGINES[prop]
    engine = importlib.import_module('engines.' + engine_name)
    scratch = os.environ['VERIF_SCRATCH']
    build_info = json.loads(os.environ.get('VERIF_BUILD_INFO', '{}'))
    cfg = engine.TIERS[tier]
    if seed is None:
        seed = int(os.environ.get('VERIF_SEED', cfg.get('seed', 20260923)))
    workers = int(os.environ.get('VERIF_WORKERS', min(16, os.cpu_count() or 4)))
    n_units = int(os.environ.get('VERIF_UNITS', cfg['units']))
    wall_cap = float(os.environ.get('VERIF_WALL', cfg['wall_cap']))
    unit_timeout = cfg.get('unit_timeout', 300.0)
    print('[%s/%s] engine=%s seed=%d units=%d workers=%d build=%s' %
          (prop, tier, engine_name, seed, n_units, workers, build_info.get('source_digest')), flush=True)
    t0 = time.monotonic()
    agg = {'evaluations': 0, 'digests': set(), 'stats': {}, 'violations': [], 'samples': [],
           'harness_errors': [], 'units_done': 0, 'units_skipped': 0, 'unit_digests': {}}
    ctx = multiprocessing.get_context('fork')
    with ProcessPoolExecutor(max_workers=workers, mp_context=ctx, initializer=_worker_init,
                             initargs=(engine_name, scratch)) as ex:
        pending = [(H(seed, engine_name, r), tier, r, unit_timeout) for r in range(n_units)]
        futs = []
        it = iter(pending)
        inflight = set()
        from concurrent.futures import wait, FIRST_COMPLETED
        done_all = False
        while not done_all:
            while len(inflight) < workers * 2:
                if time.monotonic() - t0 > wall_cap:
                    break
                try:
                    a = next(it)
                except StopIteration:
                    break
                inflight.add(ex.submit(_worker_unit, a))
            if not inflight:
                break
            done, inflight = wait(inflight, return_when=FIRST_COMPLETED)
            for f in done:
                r, useed, kind, val, dt = f.result()
                agg['units_done'] += 1
                if kind == 'ok':
                    _merge(agg, val, r)
                elif kind == 'crash':
                    j = val.get('journal')
                    if j and j.get('case') is not None:
                        v = crash_violation(engine, val['signal'], j.get('inflight_op'), j['case'])
                        agg['violations'].append({'case': j['case'], 'violation': v, 'unit': r})
                        agg['evaluations'] += 1
                    else:
                        agg['harness_errors'].append('unit %d: child died (%s) with no case in flight' % (r, val['signal']))
                elif kind == 'timeout':
                    agg['harness_errors'].append('unit %d (seed %d): wall timeout %.0fs' % (r, useed, unit_timeout))
                else:
                    agg['harness_errors'].append('unit %d (seed %d): %s' % (r, useed, val))
        agg['units_skipped'] = n_units - agg['units_done']
    explore_s = time.monotonic() - t0
    # ---- violations: classify, minimise, write replay, self-replay
    known = load_known(prop)
    rc = 0
    seen = {}
    for item in agg['violations']:
        v = item['violation']
        key = v['klass']
        seen.setdefault(key, []).append(item)
    known_hits = {}
    new_classes = []
    for key, items in seen.items():
        # a class is known only if every instance of it matches a listed finding
        unmatched = [it_ for it_ in items if not match_known(known, it_['violation']['sig'])]
        for it_ in items:
            e = match_known(known, it_['violation']['sig'])
            if e:
                known_hits.setdefault(e['id'], [e, 0])[1] += 1
        if unmatched:
            new_classes.append((key, unmatched))
    for fid, (e, cnt) in sorted(known_hits.items()):
        print('KNOWN-FINDING: property=%s %s: %s (observed %d times)' % (prop, fid, e['what'], cnt), flush=True)
    replay_paths = []
    max_report = int(os.environ.get('VERIF_MAX_REPORT', 4))
    for key, items in new_classes[:max_report]:
        item = items[0]
        try:
            path = minimise_and_write(engine, prop, item, scratch, seed, build_info)
        except HarnessError as e:
            agg['harness_errors'].append('replay of class %s failed: %s' % (key, e))
            continue
        replay_paths.append(path)
        print('VIOLATION property=%s replay=%s' % (prop, path), flush=True)
        print('  class: %s\n  detail: %s' % (key, item['violation']['detail']), flush=True)
        rc = 1
    for key, items in new_classes[max_report:]:
        print('  (further violation class not minimised: %s, %d instances)' % (key, len(items)), flush=True)
        rc = 1
    wall = time.monotonic() - t0
    write_evidence(engine, prop, tier, seed, agg, wall, explore_s, build_info, workers,
                   len(new_classes), known_hits, replay_paths)
    if agg['harness_errors']:
        for h in agg['harness_errors'][:10]:
            print('HARNESS-ERROR: %s' % h.strip().split('\n')[-1], flush=True)
            if os.environ.get('VERIF_DEBUG'):
                print(h)
        if rc == 0:
            rc = 2
    print('[%s/%s] units=%d evaluations=%d distinct_nontrivial=%d violations(new classes)=%d known=%d wall=%.1fs rc=%d' %
          (prop, tier, agg['units_done'], agg['evaluations'], len(agg['digests']), len(new_classes),
           len(known_hits), wall, rc), flush=True)
    return rc


def _merge(agg, val, r):
    agg['evaluations'] += val.get('evaluations', 0)
    agg['digests'].update(val.get('nontrivial_digests', ()))
    for k, n in val.get('stats', {}).items():
        if isinstance(n, (int, float)):
            if k.startswith('max.'):
                agg['stats'][k] = max(agg['stats'].get(k, 0), n)
            else:
                agg['stats'][k] = agg['stats'].get(k, 0) + n
    for item in val.get('violations', ()):
        item['unit'] = r
        agg['violations'].append(item)
    if len(agg['samples']) < 3 and val.get('samples'):
        agg['samples'].append(val['samples'][0])
    agg['unit_digests'][r] = val.get('digest')


def minimise_and_write(engine, prop, item, scratch, seed, build_info):
    case, v = item['case'], item['violation']
    klass = v['klass']

    def still_fails(c):
        res = execute_case(engine, c, scratch)
        return res['violation'] is not None and res['violation']['klass'] == klass

    first = execute_case(engine, case, scratch)
    if first['violation'] is None or first['violation']['klass'] != klass:
        raise HarnessError('violation did not reproduce on re-execution (class %s, got %s, harness %s)' %
                           (klass, first['violation'] and first['violation']['klass'], first['harness']))
    small = case
    if hasattr(engine, 'shrink') and not os.environ.get('VERIF_NO_SHRINK'):
        try:
            small = engine.shrink(case, still_fails)
        except Exception:
            small = case
        if not still_fails(small):
            small = case
    res = execute_case(engine, small, scratch)
    os.makedirs(REPLAYS, exist_ok=True)
    name = '%s-%d-%s.json' % (prop, seed, sha((klass, small))[:8])
    path = os.path.join(REPLAYS, name)
    doc = {'property': prop, 'engine': engine.__name__.split('.')[-1], 'seed': seed, 'unit': item.get('unit'),
           'build': {k: build_info.get(k) for k in ('flavour', 'repo_head', 'dirty', 'source_digest')},
           'case': small, 'violation': res['violation'], 'digest': res['digest']}
    with open(path, 'w') as fh:
        json.dump(doc, fh, indent=1)
    # self-replay in a fresh interpreter on the same build
    p = subprocess.run([sys.executable, '-m', 'simkit.main', 'replay-inner', path],
                       stdout=subprocess.PIPE, stderr=subprocess.STDOUT, text=True, cwd=VERIF)
    if p.returncode != 1 or 'REPRODUCED' not in p.stdout:
        raise HarnessError('self-replay in a fresh interpreter did not reproduce: rc=%d %s' % (p.returncode, p.stdout[-500:]))
    return path


def replay_file(path):
    doc = json.load(open(path))
    engine = importlib.import_module('engines.' + doc['engine'])
    scratch = os.environ['VERIF_SCRATCH']
    if hasattr(engine, 'warmup'):
        engine.warmup()
    res = execute_case(engine, doc['case'], scratch)
    want = doc['violation']
    got = res['violation']
    if res['harness']:
        print('HARNESS-ERROR during replay: %s' % res['harness'])
        return 2
    if got is None:
        print('NOT-REPRODUCED: the recorded case no longer violates %s (recorded class: %s)' % (doc['property'], want['klass']))
        return 0
    same = got['klass'] == want['klass']
    samed = res['digest'] == doc.get('digest')
    print('REPRODUCED property=%s class=%s same_class=%s same_digest=%s' % (doc['property'], got['klass'], same, samed))
    print('  detail: %s' % got['detail'])
    return 1


# ----------------------------------------------------------------------------- evidence

def write_evidence(engine, prop, tier, seed, agg, wall, explore_s, build_info, workers, n_new, known_hits, replay_paths):
    os.makedirs(EVIDENCE, exist_ok=True)
    stats = dict(sorted(agg['stats'].items()))
    faults = {k[6:]: v for k, v in stats.items() if k.startswith('fault.')}
    probes = {k[6:]: v for k, v in stats.items() if k.startswith('probe.')}
    other = {k: v for k, v in stats.items() if not k.startswith('fault.') and not k.startswith('probe.')}
    cov = {
        'evaluations': agg['evaluations'],
        'distinct_nontrivial': len(agg['digests']),
        'rule': engine.RULE,
        'samples': agg['samples'] or ['(no sample recorded)'],
        'exhaustive': False,
        'units': agg['units_done'],
        'units_skipped_by_wall_cap': agg['units_skipped'],
        'runs_per_hour': int(agg['evaluations'] / max(explore_s, 1e-9) * 3600),
        'seeds': {'base': seed, 'per_unit': 'H(base, engine, unit_index)', 'units': agg['units_done']},
        'simulated_time': engine.SIM_TIME_NOTE,
        'sim_steps': int(stats.get('steps', 0)),
        'faults_fired': faults if faults else 'none applicable (fault-free corner, see level_note)',
        'probes': probes,
        'counters': other,
        'components': {'real_from_repo_working_tree': build_info.get('from_repo'),
                       'prebuilt_not_from_repo': build_info.get('prebuilt_not_from_repo'),
                       'simulated_or_stub': engine.STUBS},
        'build': {k: build_info.get(k) for k in ('flavour', 'repo_head', 'dirty', 'source_digest', 'build_s')},
        'workers': workers,
        'harness_errors': len(agg['harness_errors']),
        'known_findings_observed': {k: v[1] for k, v in known_hits.items()},
        'replays': replay_paths,
    }
    if hasattr(engine, 'coverage_extra'):
        cov.update(engine.coverage_extra(stats))
    doc = {'property_id': prop, 'tier': tier, 'seed': seed, 'level': engine.LEVEL, 'coverage': cov,
           'assumptions': engine.ASSUMPTIONS, 'wall_s': round(wall, 2), 'violations': n_new}
    with open(os.path.join(EVIDENCE, prop + '.json'), 'w') as fh:
        json.dump(doc, fh, indent=1, default=str)
