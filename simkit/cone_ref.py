"""Pure-Python (lists of floats) cone algebra used by oracles.  Shares no code with misc.py /
misc_solvers.c.  Vectors over the cone C = R^mnl_+ x R^l_+ x Q_.. x S_.. are flat lists in the
solver's unpacked storage: 's' blocks are m*m column-major, only the lower triangle is referenced.
"""
import math


def cdim(dims, mnl=0):
    return mnl + dims['l'] + sum(dims['q']) + sum(m * m for m in dims['s'])


def blocks(dims, mnl=0):
    """yield (kind, offset, size) — kind in 'l' (incl. nonlinear), 'q', 's' (size = order m)."""
    ind = 0
    n = mnl + dims['l']
    yield ('l', 0, n)
    ind = n
    for m in dims['q']:
        yield ('q', ind, m)
        ind += m
    for m in dims['s']:
        yield ('s', ind, m)
        ind += m * m


def sym_lower(x, off, m):
    """m x m symmetric matrix (list of rows) from the lower triangle of the column-major block."""
    A = [[0.0] * m for _ in range(m)]
    for j in range(m):
        for i in range(j, m):
            v = x[off + j * m + i]
            A[i][j] = v
            A[j][i] = v
    return A


def full_mat(x, off, m):
    return [[x[off + j * m + i] for j in range(m)] for i in range(m)]


def jacobi_eigs(A, sweeps=60):
    """eigenvalues of a symmetric matrix by cyclic Jacobi"""
    n = len(A)
    A = [row[:] for row in A]
    if n == 0:
        return []
    for _ in range(sweeps):
        off = sum(A[i][j] ** 2 for i in range(n) for j in range(n) if i != j)
        tot = sum(A[i][i] ** 2 for i in range(n)) + off
        if off <= 1e-30 * max(tot, 1e-300):
            break
        for p in range(n - 1):
            for q in range(p + 1, n):
                if A[p][q] == 0.0:
                    continue
                theta = (A[q][q] - A[p][p]) / (2.0 * A[p][q])
                t = (1.0 if theta >= 0 else -1.0) / (abs(theta) + math.sqrt(theta * theta + 1.0))
                c = 1.0 / math.sqrt(t * t + 1.0)
                s = t * c
                for k in range(n):
                    akp, akq = A[k][p], A[k][q]
                    A[k][p] = c * akp - s * akq
                    A[k][q] = s * akp + c * akq
                for k in range(n):
                    apk, aqk = A[p][k], A[q][k]
                    A[p][k] = c * apk - s * aqk
                    A[q][k] = s * apk + c * aqk
    return sorted(A[i][i] for i in range(n))


def margin(x, dims, mnl=0):
    """distance-like margin to the cone boundary: > 0 iff x is strictly inside.
    min entry ('l'), x0 - ||x1|| ('q'), smallest eigenvalue ('s').  +inf for the empty cone."""
    best = float('inf')
    for kind, off, m in blocks(dims, mnl):
        if kind == 'l':
            for i in range(m):
                best = min(best, x[off + i])
        elif kind == 'q':
            best = min(best, x[off] - math.sqrt(sum(v * v for v in x[off + 1:off + m])))
        else:
            if m:
                best = min(best, jacobi_eigs(sym_lower(x, off, m))[0])
    return best


def sdot(x, y, dims, mnl=0):
    t = 0.0
    for kind, off, m in blocks(dims, mnl):
        if kind in ('l', 'q'):
            t += sum(x[off + i] * y[off + i] for i in range(m))
        else:
            for j in range(m):
                t += x[off + j * m + j] * y[off + j * m + j]
                for i in range(j + 1, m):
                    t += 2.0 * x[off + j * m + i] * y[off + j * m + i]
    return t


def snrm2(x, dims, mnl=0):
    return math.sqrt(max(sdot(x, x, dims, mnl), 0.0))


def nrm2(x):
    return math.sqrt(sum(v * v for v in x))


def dot(x, y):
    return sum(a * b for a, b in zip(x, y))


# ---- plain dense matrices: (m, n, column-major list)

def to_dense(A):
    """cvxopt matrix/spmatrix -> (m, n, col-major list of floats)"""
    from cvxopt import matrix
    D = matrix(A, tc='d') if A.size[0] * A.size[1] else None
    m, n = A.size
    return (m, n, list(D) if D is not None else [])


def matvec(A, x):
    m, n, a = A
    y = [0.0] * m
    for j in range(n):
        xj = x[j]
        if xj != 0.0:
            o = j * m
            for i in range(m):
                y[i] += a[o + i] * xj
    return y


def matvec_t(A, x):
    m, n, a = A
    return [sum(a[j * m + i] * x[i] for i in range(m)) for j in range(n)]


def sgemv_t(G, z, dims, mnl_rows=0):
    """G' * z where the 's' blocks of z are symmetric matrices given by their lower triangle
    (the solver's convention: off-diagonal lower entries count twice, upper entries ignored)."""
    m, n, a = G
    w = list(z)
    for kind, off, k in blocks(dims, 0):
        if kind == 's':
            for j in range(k):
                for i in range(k):
                    if i > j:
                        w[off + j * k + i] *= 2.0
                    elif i < j:
                        w[off + j * k + i] = 0.0
    return matvec_t(G, w)


# ---- Nesterov-Todd scaling straight from the documented definition (coneprog.py:297-321)

def _matmul(A, B):
    n, k, m = len(A), len(B), len(B[0]) if B else 0
    return [[sum(A[i][t] * B[t][j] for t in range(k)) for j in range(m)] for i in range(n)]


def _T(A):
    return [list(r) for r in zip(*A)] if A else []


def w_lists(W):
    """cvxopt scaling dict -> plain lists"""
    out = {'d': list(W['d']), 'di': list(W['di']), 'beta': list(W['beta']),
           'v': [list(v) for v in W['v']],
           'r': [full_mat(list(r), 0, r.size[0]) for r in W['r']],
           'rti': [full_mat(list(r), 0, r.size[0]) for r in W['rti']]}
    if 'dnl' in W:
        out['dnl'] = list(W['dnl'])
        out['dnli'] = list(W['dnli'])
    return out


def scale(x, W, trans='N', inverse='N'):
    """returns W*x, W^T*x, W^{-1}*x or W^{-T}*x for a flat vector x; W from w_lists().
    's' blocks of x are taken as symmetric (lower triangle) and returned symmetric (both triangles)."""
    y = list(x)
    ind = 0
    if 'dnl' in W:
        w = W['dnl'] if inverse == 'N' else W['dnli']
        for i in range(len(w)):
            y[i] = w[i] * x[i]
        ind = len(w)
    w = W['d'] if inverse == 'N' else W['di']
    for i in range(len(w)):
        y[ind + i] = w[i] * x[ind + i]
    ind += len(w)
    for k, v in enumerate(W['v']):
        m = len(v)
        xk = x[ind:ind + m]
        beta = W['beta'][k]
        if inverse == 'N':
            # beta * (2 v v' - J) xk
            vx = dot(v, xk)
            yk = [beta * (2.0 * v[i] * vx - (xk[i] if i == 0 else -xk[i])) for i in range(m)]
        else:
            # 1/beta * (2 J v v' J - J) xk
            Jv = [v[0]] + [-t for t in v[1:]]
            jvx = dot(Jv, xk)
            yk = [(2.0 * Jv[i] * jvx - (xk[i] if i == 0 else -xk[i])) / beta for i in range(m)]
        y[ind:ind + m] = yk
        ind += m
    for k, r in enumerate(W['r']):
        m = len(r)
        X = sym_lower(x, ind, m)
        if inverse == 'N':
            R = r
            Y = _matmul(_matmul(_T(R), X), R) if trans == 'N' else _matmul(_matmul(R, X), _T(R))
        else:
            R = W['rti'][k]
            Y = _matmul(_matmul(R, X), _T(R)) if trans == 'N' else _matmul(_matmul(_T(R), X), R)
        for j in range(m):
            for i in range(m):
                y[ind + j * m + i] = Y[i][j]
        ind += m * m
    return y


def numeric_rank(rows, tol=1e-9):
    """rank of a matrix given as list of rows, by Gaussian elimination with partial pivoting;
    also returns the ratio smallest/largest pivot (a crude conditioning measure)"""
    A = [list(map(float, r)) for r in rows if r is not None]
    if not A or not A[0]:
        return 0, 1.0
    m, n = len(A), len(A[0])
    scale = max((abs(v) for r in A for v in r), default=0.0)
    if scale == 0.0:
        return 0, 0.0
    rank = 0
    piv = []
    row = 0
    for c in range(n):
        if row >= m:
            break
        best = max(range(row, m), key=lambda r: abs(A[r][c]))
        if abs(A[best][c]) <= tol * scale:
            continue
        A[row], A[best] = A[best], A[row]
        piv.append(abs(A[row][c]))
        for r in range(row + 1, m):
            f = A[r][c] / A[row][c]
            if f != 0.0:
                for k in range(c, n):
                    A[r][k] -= f * A[row][k]
        row += 1
        rank += 1
    return rank, (min(piv) / max(piv) if piv else 0.0)


def selftest():
    # hand-computed cases
    assert abs(margin([1.0, 2.0, 3.0, 0.0, 0.0], {'l': 2, 'q': [3], 's': []}) - 1.0) < 1e-15
    assert abs(margin([5.0, 3.0, 4.0], {'l': 0, 'q': [3], 's': []}) - 0.0) < 1e-15
    e = jacobi_eigs([[2.0, 1.0], [1.0, 2.0]])
    assert abs(e[0] - 1.0) < 1e-12 and abs(e[1] - 3.0) < 1e-12
    # 's' block [[2,1],[1,2]] stored col-major with junk in the upper triangle
    assert abs(margin([2.0, 1.0, 99.0, 2.0], {'l': 0, 'q': [], 's': [2]}) - 1.0) < 1e-12
    assert abs(sdot([2.0, 1.0, 99.0, 2.0], [1.0, 3.0, -7.0, 1.0], {'l': 0, 'q': [], 's': [2]}) - (2 + 2 + 6)) < 1e-12
    W = {'d': [2.0], 'di': [0.5], 'beta': [3.0], 'v': [[math.cosh(0.3), math.sinh(0.3), 0.0]],
         'r': [[[1.0, 2.0], [0.0, 1.0]]], 'rti': [[[1.0, 0.0], [-2.0, 1.0]]]}
    x = [1.5, 2.0, 0.5, -0.25, 1.0, 0.5, 0.5, 3.0]
    for tr in 'NT':
        y = scale(scale(x, W, trans=tr, inverse='N'), W, trans=tr, inverse='I')
        assert max(abs(a - b) for a, b in zip(x, y)) < 1e-12, (tr, y)
    # W^T W applied to the q block equals beta^2 (2 J... ) check through v'Jv = 1: (2vv'-J)^2 = I + ... ; use W W^{-1} only
    return True


if __name__ == '__main__':
    print(selftest())
