"""Self-consistency of a solver result: recompute, in plain Python from the *returned* vectors and
the caller's own data, the accuracy fields the result reports (DESIGN 5.C10).  This says nothing
about whether the fields are small (C01/C03/C04) — only that they describe the returned point."""
import math

from simkit import cone_ref as CR
from simkit import gen


def L(m):
    return None if m is None else list(m)


def flat_result(inst, res):
    """(x, y, s, z) as flat lists (or None) from any entry point's result dict"""
    k = inst['kind']
    if k in ('conelp', 'coneqp', 'lp', 'qp'):
        return L(res.get('x')), L(res.get('y')), L(res.get('s')), L(res.get('z'))
    if k == 'socp':
        def cat(a, bs):
            if a is None or bs is None:
                return None
            out = list(a)
            for b in bs:
                out += list(b)
            return out
        return L(res.get('x')), L(res.get('y')), cat(res.get('sl'), res.get('sq')), cat(res.get('zl'), res.get('zq'))
    if k == 'sdp':
        def cat(a, bs):
            if a is None or bs is None:
                return None
            out = list(a)
            for b in bs:
                out += list(b)      # column-major
            return out
        return L(res.get('x')), L(res.get('y')), cat(res.get('sl'), res.get('ss')), cat(res.get('zl'), res.get('zs'))
    raise ValueError(k)


def close(a, b, scale, rel=1e-6, ab=1e-9):
    if a is None or b is None:
        return a is None and b is None
    if isinstance(a, float) and (math.isnan(a) or math.isinf(a)):
        return False
    if isinstance(b, float) and (math.isnan(b) or math.isinf(b)):
        return False
    return abs(a - b) <= rel * max(abs(scale), abs(a), abs(b)) + ab


def finite(v):
    return all(not (math.isnan(t) or math.isinf(t)) for t in v)


def check_cone_result(inst, res, fields_only=False):
    """conelp/coneqp family: list of (field, reported, recomputed) mismatches, plus margins.
    Returns (problems list, info dict)."""
    probs = []
    x, y, s, z = flat_result(inst, res)
    for name, v in (('x', x), ('y', y), ('s', s), ('z', z)):
        if v is None:
            probs.append(('missing', name, None, None))
    if probs:
        return probs, {}
    if not (finite(x) and finite(y) and finite(s) and finite(z)):
        return [('nonfinite', 'x/y/s/z', None, None)], {}
    dims = inst['dims']
    n, p = inst['n'], inst['p']
    G = (inst['G']['m'], n, inst['G']['v'])
    A = (p, n, inst['A']['v'])
    h, b = inst['h'], inst['b']
    if len(y) != p:
        # p == 0: solvers return an empty y
        y = y[:p]
    ms, mz = CR.margin(s, dims), CR.margin(z, dims)
    info = {'margin_s': ms, 'margin_z': mz, 'norm_s': CR.nrm2(s), 'norm_z': CR.nrm2(z)}
    Gx = CR.matvec(G, x)
    Ax = CR.matvec(A, x)
    Gtz = CR.sgemv_t(G, z, dims)
    Aty = CR.matvec_t(A, y)
    gap = CR.sdot(s, z, dims)
    nx, ny, ns_, nz = CR.nrm2(x), CR.nrm2(y), CR.snrm2(s, dims), CR.snrm2(z, dims)
    nG = CR.nrm2(G[2]); nA = CR.nrm2(A[2])
    resy0 = max(1.0, CR.nrm2(b))
    resz0 = max(1.0, CR.snrm2(h, dims))
    rz = [a + c - d for a, c, d in zip(Gx, s, h)]
    ry = [a - c for a, c in zip(Ax, b)]
    resz = CR.snrm2(rz, dims)
    resy = CR.nrm2(ry)
    pres = max(resy / resy0, resz / resz0)
    pres_scale = max((nA * nx + CR.nrm2(b)) / resy0, (nG * nx + ns_ + CR.snrm2(h, dims)) / resz0)
    qp = inst['kind'] in ('coneqp', 'qp')
    if qp:
        P = (n, n, inst['P']['v'])
        q = inst['q']
        Px = CR.matvec(P, x)
        resx0 = max(1.0, CR.nrm2(q))
        rx = [a + c + d + e for a, c, d, e in zip(Px, q, Aty, Gtz)]
        dres = CR.nrm2(rx) / resx0
        dres_scale = (CR.nrm2(Px) + CR.nrm2(q) + CR.nrm2(Aty) + CR.nrm2(Gtz)) / resx0
        pcost = 0.5 * CR.dot(x, Px) + CR.dot(q, x)
        pc_scale = 0.5 * abs(CR.dot(x, Px)) + abs(CR.dot(q, x))
        dcost = pcost + CR.dot(y, ry) + CR.sdot(z, rz, dims) - gap
        dc_scale = pc_scale + ny * resy + nz * resz + abs(gap)
    else:
        c = inst['c']
        resx0 = max(1.0, CR.nrm2(c))
        rx = [a + d + e for a, d, e in zip(c, Aty, Gtz)]
        dres = CR.nrm2(rx) / resx0
        dres_scale = (CR.nrm2(c) + CR.nrm2(Aty) + CR.nrm2(Gtz)) / resx0
        pcost = CR.dot(c, x)
        pc_scale = CR.nrm2(c) * nx
        by, hz = CR.dot(b, y), CR.sdot(h, z, dims)
        dcost = -(by + hz)
        dc_scale = abs(by) + CR.snrm2(h, dims) * nz
    if pcost < 0.0:
        relgap = gap / -pcost
    elif dcost > 0.0:
        relgap = gap / dcost
    else:
        relgap = None
    exp = [('gap', gap, ns_ * nz), ('primal objective', pcost, pc_scale), ('dual objective', dcost, dc_scale),
           ('primal infeasibility', pres, pres_scale), ('dual infeasibility', dres, dres_scale),
           ('primal slack', ms, ns_), ('dual slack', mz, nz)]
    for name, val, scale in exp:
        rep = res.get(name)
        if rep is None or not close(float(rep), val, scale):
            probs.append(('field', name, rep, val))
    # relative gap: compare only when the sign tests are decisive
    rep = res.get('relative gap')
    decisive = abs(pcost) > 1e-6 * max(pc_scale, 1e-300) and abs(dcost) > 1e-6 * max(dc_scale, 1e-300)
    if decisive:
        if (rep is None) != (relgap is None):
            probs.append(('field', 'relative gap', rep, relgap))
        elif rep is not None and not close(float(rep), relgap, relgap, rel=1e-4, ab=1e-9 + 1e-4 * ns_ * nz / max(abs(pcost), abs(dcost))):
            probs.append(('field', 'relative gap', rep, relgap))
    return probs, info


# ----------------------------------------------------------------------------- cpl / cp

def epigraph_model(inst):
    """A cp instance as the cpl problem the solver really solves: variable (x, t), objective t,
    constraints (f0(x) - t, f1(x), ...)."""
    return inst


def eval_F(inst, xl):
    """values and gradients (lists) of all components at xl (no t handling)"""
    n = inst['n']
    vals, grads = [], []
    for c in inst['comps']:
        v, g, _ = gen.comp_eval(c, n, xl)
        vals.append(v)
        grads.append(g)
    return vals, grads


def check_cpl_result(inst, raw, refuse=None):
    """raw: the dict returned by cvxprog.cpl itself (for cp: captured before cp strips the
    epigraph variable).  Returns (problems, info)."""
    probs = []
    n, p = inst['n'], inst['p']
    is_cp = inst['kind'] in ('cp', 'gp')
    for name in ('x', 'y', 'snl', 'sl', 'znl', 'zl'):
        if raw.get(name) is None:
            probs.append(('missing', name, None, None))
    if probs:
        return probs, {}
    if is_cp:
        xe = raw['x']
        x, t = list(xe[0]), float(xe[1])
    else:
        x, t = list(raw['x']), None
    y = list(raw['y'])[:p]
    snl, sl, znl, zl = list(raw['snl']), list(raw['sl']), list(raw['znl']), list(raw['zl'])
    if not (finite(x) and finite(y) and finite(snl) and finite(sl) and finite(znl) and finite(zl)):
        return [('nonfinite', 'x/y/s/z', None, None)], {}
    dims = inst['dims']
    mnl = len(snl)
    s, z = snl + sl, znl + zl
    ms, mz = CR.margin(s, dims, mnl), CR.margin(z, dims, mnl)
    info = {'margin_s': ms, 'margin_z': mz, 'x': x, 'norm_s': CR.nrm2(s), 'norm_z': CR.nrm2(z)}
    if not all(gen.comp_in_domain(c, n, x) for c in inst['comps']) or (refuse is not None and refuse(x)):
        probs.append(('domain', 'x', None, None))
        return probs, info
    vals, grads = eval_F(inst, x)
    G = (inst['G']['m'], n, inst['G']['v'])
    A = (p, n, inst['A']['v'])
    h, b = inst['h'], inst['b']
    if is_cp:
        f = [vals[0] - t] + vals[1:]
    else:
        f = vals
    Gx = CR.matvec(G, x) if G[0] else []
    Ax = CR.matvec(A, x)
    rznl = [a + c for a, c in zip(snl, f)]
    rzl = [a + c - d for a, c, d in zip(Gx, sl, h)]
    ry = [a - c for a, c in zip(Ax, b)]
    gap = CR.sdot(s, z, dims, mnl)
    # rx = c + A'y + Df'znl + G'zl
    Aty = CR.matvec_t(A, y)
    Gtz = CR.sgemv_t(G, zl, dims) if G[0] else [0.0] * n
    Dtz = [sum(grads[k][j] * znl[k] for k in range(mnl)) for j in range(n)]
    if is_cp:
        rx = [a + c + d for a, c, d in zip(Aty, Gtz, Dtz)] + [1.0 - znl[0]]
        pcost = t
        pc_scale = abs(t)
        rx_scale = CR.nrm2(Aty) + CR.nrm2(Gtz) + CR.nrm2(Dtz) + 1.0 + abs(znl[0])
    else:
        c = inst['c']
        rx = [a + c_ + d + e for a, c_, d, e in zip(c, Aty, Gtz, Dtz)]
        pcost = CR.dot(c, x)
        pc_scale = CR.nrm2(c) * CR.nrm2(x)
        rx_scale = CR.nrm2(c) + CR.nrm2(Aty) + CR.nrm2(Gtz) + CR.nrm2(Dtz)
    resx = CR.nrm2(rx)
    resy = CR.nrm2(ry)
    resznl = CR.nrm2(rznl)
    reszl = CR.snrm2(rzl, dims)
    dcost = pcost + CR.dot(y, ry) + CR.dot(znl, rznl) + CR.sdot(zl, rzl, dims) - gap
    dc_scale = pc_scale + CR.nrm2(y) * resy + CR.nrm2(znl) * resznl + CR.snrm2(zl, dims) * reszl + abs(gap)
    # normalisers from the initial point: x0 (t0 = 0), y = 0, s = z = e
    x0 = inst['x0']
    v0, g0 = eval_F(inst, x0)
    e_l = cone_identity(dims)
    e_nl = [1.0] * mnl
    if is_cp:
        f0 = [v0[0] - 0.0] + v0[1:]
    else:
        f0 = v0
    Gx0 = CR.matvec(G, x0) if G[0] else []
    rznl0 = [a + c for a, c in zip(e_nl, f0)]
    rzl0 = [a + c - d for a, c, d in zip(Gx0, e_l, h)]
    ry0 = [a - c for a, c in zip(CR.matvec(A, x0), b)]
    Gte = CR.sgemv_t(G, e_l, dims) if G[0] else [0.0] * n
    Dte = [sum(g0[k][j] for k in range(mnl)) for j in range(n)]
    if is_cp:
        rx0 = [a + c for a, c in zip(Gte, Dte)] + [1.0 - 1.0]
    else:
        rx0 = [a + c + d for a, c, d in zip(inst['c'], Gte, Dte)]
    pres0 = max(1.0, math.sqrt(CR.nrm2(ry0) ** 2 + CR.nrm2(rznl0) ** 2 + CR.snrm2(rzl0, dims) ** 2))
    dres0 = max(1.0, CR.nrm2(rx0))
    pres = math.sqrt(resy ** 2 + resznl ** 2 + reszl ** 2) / pres0
    dres = resx / dres0
    nx = CR.nrm2(x)
    pres_scale = (CR.nrm2(A[2]) * nx + CR.nrm2(b) + CR.nrm2(snl) + CR.nrm2(f) + CR.nrm2(G[2]) * nx +
                  CR.snrm2(sl, dims) + CR.snrm2(h, dims)) / pres0
    if pcost < 0.0:
        relgap = gap / -pcost
    elif dcost > 0.0:
        relgap = gap / dcost
    else:
        relgap = None
    ns_, nz = CR.snrm2(s, dims, mnl), CR.snrm2(z, dims, mnl)
    exp = [('gap', gap, ns_ * nz), ('primal objective', pcost, pc_scale), ('dual objective', dcost, dc_scale),
           ('primal infeasibility', pres, pres_scale), ('dual infeasibility', dres, rx_scale / dres0),
           ('primal slack', ms, ns_), ('dual slack', mz, nz)]
    for name, val, scale in exp:
        rep = raw.get(name)
        if rep is None or not close(float(rep), val, scale):
            probs.append(('field', name, rep, val))
    rep = raw.get('relative gap')
    decisive = abs(pcost) > 1e-6 * max(pc_scale, 1e-300) and abs(dcost) > 1e-6 * max(dc_scale, 1e-300)
    if decisive:
        if (rep is None) != (relgap is None):
            probs.append(('field', 'relative gap', rep, relgap))
        elif rep is not None and not close(float(rep), relgap, relgap, rel=1e-4, ab=1e-9 + 1e-4 * ns_ * nz / max(abs(pcost), abs(dcost))):
            probs.append(('field', 'relative gap', rep, relgap))
    return probs, info


def cone_identity(dims):
    e = [1.0] * dims['l']
    for m in dims['q']:
        e += [1.0] + [0.0] * (m - 1)
    for m in dims['s']:
        for j in range(m):
            for i in range(m):
                e.append(1.0 if i == j else 0.0)
    return e
