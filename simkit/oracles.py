"""Oracles shared by several engines (DESIGN 4): bits(), image(), globals_snapshot(), ccs_valid()."""
import hashlib
import random
import sys
import types


def canon(v, depth=0):
    """canonical, bit-exact, hashable-by-repr form of a solver result / argument"""
    from cvxopt import matrix, spmatrix
    if isinstance(v, matrix):
        tc = v.typecode
        if tc == 'd':
            vals = [x.hex() for x in v]
        elif tc == 'z':
            vals = [(x.real.hex(), x.imag.hex()) for x in v]
        else:
            vals = list(v)
        return ('M', tc, v.size, vals)
    if isinstance(v, spmatrix):
        colptr, rowind, vals = v.CCS
        tc = v.typecode
        if tc == 'd':
            vv = [x.hex() for x in vals]
        else:
            vv = [(x.real.hex(), x.imag.hex()) for x in vals]
        return ('S', tc, v.size, list(colptr), list(rowind), vv)
    if isinstance(v, float):
        return ('f', v.hex())
    if isinstance(v, complex):
        return ('c', v.real.hex(), v.imag.hex())
    if isinstance(v, (bool, int, str, bytes)) or v is None:
        return v
    if isinstance(v, dict):
        return ('D', sorted(((repr(k), canon(x, depth + 1)) for k, x in v.items()), key=lambda t: t[0]))
    if isinstance(v, (list, tuple)):
        return ('L' if isinstance(v, list) else 'T', [canon(x, depth + 1) for x in v])
    if callable(v):
        return ('callable',)
    return ('obj', type(v).__name__)


def bits(v):
    return hashlib.sha256(repr(canon(v)).encode()).hexdigest()[:20]


image = bits

_MODS = ('cvxopt', 'cvxopt.solvers', 'cvxopt.coneprog', 'cvxopt.cvxprog', 'cvxopt.misc', 'cvxopt.modeling',
         'cvxopt.printing', 'cvxopt.cholmod', 'cvxopt.glpk', 'cvxopt.dsdp', 'cvxopt.umfpack', 'cvxopt.base',
         'cvxopt.blas', 'cvxopt.lapack', 'cvxopt.misc_solvers', 'cvxopt.amd')


def _val(x, depth=0):
    if isinstance(x, (bool, int, float, str, bytes, complex)) or x is None:
        return repr(x)
    if isinstance(x, dict) and depth < 3:
        return 'dict#%d{%s}' % (id(x), ','.join('%r:%s' % (k, _val(v, depth + 1)) for k, v in sorted(x.items(), key=lambda t: repr(t[0]))))
    if isinstance(x, (list, tuple, set, frozenset)) and depth < 3:
        return '%s#%d[%s]' % (type(x).__name__, id(x), ','.join(_val(v, depth + 1) for v in x))
    return '%s@%d' % (type(x).__name__, id(x))


def globals_snapshot(skip_options=True):
    """every module-level attribute of the cvxopt modules by value (scalars, containers) or identity,
    plus Python's RNG state.  The shared dictionary solvers.options is reported separately
    (the option model owns it)."""
    snap = {}
    for name in _MODS:
        m = sys.modules.get(name)
        if m is None:
            continue
        d = m.__dict__
        for k in list(d.keys()):
            if k.startswith('__') and k not in ('__all__',):
                continue
            v = d[k]
            if skip_options and k == 'options' and name in ('cvxopt.solvers', 'cvxopt.coneprog', 'cvxopt.cvxprog'):
                snap[name + '.' + k] = 'dict#%d' % id(v)
                continue
            snap[name + '.' + k] = _val(v)
    snap['random.state'] = hashlib.sha256(repr(random.getstate()).encode()).hexdigest()[:16]
    return snap


def snapshot_diff(a, b):
    out = []
    for k in sorted(set(a) | set(b)):
        if a.get(k) != b.get(k):
            out.append((k, a.get(k), b.get(k)))
    return out


def ccs_valid(A):
    """None if the compressed-column representation of spmatrix A is valid, else a message"""
    colptr, rowind, vals = A.CCS
    m, n = A.size
    cp, ri = list(colptr), list(rowind)
    if len(cp) != n + 1:
        return 'len(colptr)=%d != ncols+1=%d' % (len(cp), n + 1)
    if cp[0] != 0:
        return 'colptr[0]=%d' % cp[0]
    for j in range(n):
        if cp[j + 1] < cp[j]:
            return 'colptr decreasing at column %d' % j
    if cp[-1] != len(ri) or len(ri) != len(vals):
        return 'colptr[-1]=%d len(rowind)=%d len(values)=%d' % (cp[-1], len(ri), len(vals))
    for j in range(n):
        prev = -1
        for k in range(cp[j], cp[j + 1]):
            r = ri[k]
            if r < 0 or r >= m:
                return 'row index %d out of range in column %d' % (r, j)
            if r <= prev:
                return 'row indices not strictly increasing in column %d' % j
            prev = r
    if A.typecode not in ('d', 'z') or vals.typecode != A.typecode:
        return 'typecode mismatch %s/%s' % (A.typecode, vals.typecode)
    return None


# ----------------------------------------------------------------------------- C-level module state

class CState:
    """Writable static data (.data/.bss symbols, static locals included) of the extension modules built
    from the working tree.  A solver call that leaves different bytes there has changed global state
    (e.g. a work array cached in a C static) — invisible to the Python-level snapshot, and harmful
    exactly when two threads are inside GIL-released sections at once, which a scheduler that
    serialises Python code cannot produce."""
    IGNORE_SUFFIX = ('_tp', '_module', '_functions', '_methods', '_getsets')
    IGNORE_PREFIX = ('doc_', 'completed.', 'kwlist.', '_', 'base_API', 'cvxopt_API')

    def __init__(self, modules=('base', 'blas', 'lapack', 'misc_solvers')):
        import ctypes
        import subprocess
        self.ctypes = ctypes
        self.syms = []
        maps = open('/proc/self/maps').read().split('\n')
        for m in modules:
            mod = sys.modules.get('cvxopt.' + m)
            if mod is None:
                continue
            path = mod.__file__
            base = None
            for ln in maps:
                if ln.endswith(path):
                    f = ln.split()
                    start = int(f[0].split('-')[0], 16)
                    off = int(f[2], 16)
                    if off == 0:
                        base = start
                        break
            if base is None:
                continue
            out = subprocess.run(['nm', '-S', '--defined-only', path], stdout=subprocess.PIPE, text=True).stdout
            for ln in out.split('\n'):
                f = ln.split()
                if len(f) != 4 or f[2] not in 'bBdD':
                    continue
                name = f[3]
                if name.endswith(self.IGNORE_SUFFIX) or name.startswith(self.IGNORE_PREFIX):
                    continue
                size = int(f[1], 16)
                if size == 0 or size > 65536:
                    continue
                self.syms.append((m + ':' + name, base + int(f[0], 16), size))

    def snapshot(self):
        sa = self.ctypes.string_at
        return {name: sa(addr, size) for name, addr, size in self.syms}

    @staticmethod
    def diff(a, b):
        return [k for k in a if a[k] != b.get(k)]
