"""Determinism self-test (DESIGN 2.3): the same unit seeds are executed in several fresh
interpreters — twice with the same settings, under another PYTHONHASHSEED, and in another order /
worker split — and the unit digests (SHA-256 over each unit's event log) are diffed."""
import importlib
import json
import os
import subprocess
import sys

from simkit import core


def unit_digests(argv):
    engine_name, tier, r0, r1 = argv[0], argv[1], int(argv[2]), int(argv[3])
    order = argv[4] if len(argv) > 4 else 'fwd'
    seed = int(os.environ.get('VERIF_SEED', 20260923))
    eng = importlib.import_module('engines.' + engine_name)
    if hasattr(eng, 'warmup'):
        eng.warmup()
    out = {}
    rs = list(range(r0, r1))
    if order == 'rev':
        rs.reverse()
    scratch = os.environ['VERIF_SCRATCH']
    for r in rs:
        useed = core.H(seed, engine_name, r)
        jpath = os.path.join(scratch, 'journal.det%d' % os.getpid())
        kind, val = core.in_fork(eng.run_unit, (useed, tier, r, core.Journal(jpath)), timeout=600, journal_path=jpath)
        if kind == 'ok':
            out[r] = [val.get('digest'), val.get('evaluations'), len(val.get('violations', ()))]
        else:
            out[r] = [kind, str(val)[-200:], 0]
    print('DIGESTS ' + json.dumps(out))
    return 0


def determinism(argv):
    engines = argv or sorted(set(core.ENGINES.values()))
    n = int(os.environ.get('VERIF_DET_UNITS', 12))
    bad = 0
    for e in engines:
        if not os.path.exists(os.path.join(core.VERIF, 'engines', e + '.py')):
            continue
        runs = []
        confs = [('0', 'fwd', 0, n), ('0', 'fwd', 0, n), ('12345', 'rev', 0, n), ('777', 'fwd', n // 2, n)]
        procs = []
        for hs, order, a, b in confs:
            env = dict(os.environ, PYTHONHASHSEED=hs)
            procs.append(subprocess.Popen([sys.executable, '-m', 'simkit.main', 'unit-digests', e, 'quick', str(a), str(b), order],
                                          stdout=subprocess.PIPE, stderr=subprocess.STDOUT, text=True, env=env, cwd=core.VERIF))
        for p in procs:
            out = p.communicate()[0]
            line = [ln for ln in out.split('\n') if ln.startswith('DIGESTS ')]
            if not line:
                print('HARNESS-ERROR: no digests from a %s run:\n%s' % (e, out[-1500:]))
                return 2
            runs.append(json.loads(line[0][8:]))
        ref = runs[0]
        mism = []
        for i, run in enumerate(runs[1:], 1):
            for r, d in run.items():
                if ref.get(r) != d:
                    mism.append((i, r, ref.get(r), d))
        crashed = [r for r, d in ref.items() if d[0] in ('exc', 'crash', 'timeout')]
        print('determinism %-10s units=%d configurations=%d mismatches=%d unit-errors=%d' % (e, n, len(confs), len(mism), len(crashed)))
        for m in mism[:5]:
            print('   MISMATCH conf#%d unit %s: %s vs %s' % m)
        for r in crashed[:3]:
            print('   UNIT-ERROR unit %s: %s' % (r, ref[r]))
        bad += len(mism) + len(crashed)
    return 0 if bad == 0 else 2
