"""Build cvxopt from /repo's *current working tree* into a private directory (DESIGN 2.1).

base(=base.c+dense.c+sparse.c), blas, lapack, misc_solvers are compiled from /repo/src/C;
*.py are copied from /repo/src/python; cholmod/umfpack/amd/glpk/dsdp/gsl/fftw cannot be rebuilt
in this image (no SuiteSparse/GLPK/DSDP/GSL/FFTW headers) and are taken from the wheel in /venv.

flavour 'plain': ordinary build.  flavour 'seam': `-include seam.h` routes malloc/calloc/realloc/
free of the four modules to libvpalloc.so (guard bytes, poison-on-free, quarantine).
"""
import hashlib
import os
import shutil
import subprocess
import sys
import sysconfig
import time
from concurrent.futures import ThreadPoolExecutor

HERE = os.path.dirname(os.path.abspath(__file__))
REPO = os.environ.get('VERIF_REPO', '/repo')
WHEEL = '/venv/lib/python3.12/site-packages/cvxopt'
WHEEL_LIBS = '/venv/lib/python3.12/site-packages/cvxopt.libs'
PREBUILT = ['cholmod', 'umfpack', 'amd', 'glpk', 'dsdp', 'gsl', 'fftw']
FROM_REPO = {'base': ['base.c', 'dense.c', 'sparse.c'], 'blas': ['blas.c'], 'lapack': ['lapack.c'],
             'misc_solvers': ['misc_solvers.c']}
SUFFIX = sysconfig.get_config_var('EXT_SUFFIX')
INC = sysconfig.get_paths()['include']
CFLAGS = ['-fno-strict-overflow', '-DNDEBUG', '-O2', '-fPIC', '-w']


class BuildError(Exception):
    pass


def _run(cmd):
    p = subprocess.run(cmd, stdout=subprocess.PIPE, stderr=subprocess.STDOUT, text=True)
    if p.returncode != 0:
        raise BuildError('command failed: %s\n%s' % (' '.join(cmd), p.stdout[-4000:]))
    return p.stdout


def tree_id(repo=REPO):
    """(head, dirty, digest of the sources that are built)"""
    try:
        head = subprocess.run(['git', '-C', repo, 'rev-parse', 'HEAD'], stdout=subprocess.PIPE, text=True).stdout.strip()
        dirty = bool(subprocess.run(['git', '-C', repo, 'status', '--porcelain', '--untracked-files=no'],
                                    stdout=subprocess.PIPE, text=True).stdout.strip())
    except Exception:
        head, dirty = '?', True
    h = hashlib.sha256()
    for d in ('src/C', 'src/python'):
        for f in sorted(os.listdir(os.path.join(repo, d))):
            p = os.path.join(repo, d, f)
            if os.path.isfile(p) and (f.endswith('.c') or f.endswith('.h') or f.endswith('.py')):
                h.update(f.encode()); h.update(open(p, 'rb').read())
    return head, dirty, h.hexdigest()[:16]


def build(dest, flavour='plain', repo=REPO):
    """Build into <dest>/cvxopt.  Returns a dict describing the build."""
    t0 = time.time()
    pkg = os.path.join(dest, 'cvxopt')
    obj = os.path.join(dest, 'obj')
    os.makedirs(pkg, exist_ok=True)
    os.makedirs(obj, exist_ok=True)
    csrc = os.path.join(repo, 'src', 'C')
    flags = list(CFLAGS) + ['-I', INC, '-I', csrc]
    link_extra = []
    if flavour == 'seam':
        lib = os.path.join(dest, 'libvpalloc.so')
        _run(['gcc', '-O2', '-fPIC', '-shared', '-o', lib, os.path.join(HERE, 'alloc', 'vpalloc.c'), '-lpthread'])
        flags += ['-include', os.path.join(HERE, 'alloc', 'seam.h')]
        link_extra = ['-L', dest, '-lvpalloc', '-Wl,-rpath,' + dest]
    elif flavour != 'plain':
        raise BuildError('unknown flavour ' + flavour)
    jobs = []
    for mod, srcs in FROM_REPO.items():
        for s in srcs:
            jobs.append(['gcc'] + flags + ['-c', os.path.join(csrc, s), '-o', os.path.join(obj, s[:-2] + '.o')])
    with ThreadPoolExecutor(max_workers=len(jobs)) as ex:
        list(ex.map(_run, jobs))
    links = []
    for mod, srcs in FROM_REPO.items():
        objs = [os.path.join(obj, s[:-2] + '.o') for s in srcs]
        links.append(['gcc', '-shared', '-o', os.path.join(pkg, mod + SUFFIX)] + objs + link_extra +
                     ['-llapack', '-lblas', '-lm'])
    with ThreadPoolExecutor(max_workers=len(links)) as ex:
        list(ex.map(_run, links))
    pysrc = os.path.join(repo, 'src', 'python')
    for f in os.listdir(pysrc):
        if f.endswith('.py'):
            shutil.copy(os.path.join(pysrc, f), os.path.join(pkg, f))
    if not os.path.exists(os.path.join(pkg, '_version.py')):
        with open(os.path.join(pkg, '_version.py'), 'w') as fh:
            fh.write("__version__ = '0+verif'\n")
    for m in PREBUILT:
        shutil.copy(os.path.join(WHEEL, m + SUFFIX), os.path.join(pkg, m + SUFFIX))
    libs = os.path.join(dest, 'cvxopt.libs')
    if not os.path.lexists(libs):
        os.symlink(WHEEL_LIBS, libs)
    shutil.rmtree(obj, ignore_errors=True)
    head, dirty, dig = tree_id(repo)
    return {'flavour': flavour, 'repo': repo, 'repo_head': head, 'dirty': dirty, 'source_digest': dig,
            'dest': dest, 'build_s': round(time.time() - t0, 2),
            'from_repo': sorted(FROM_REPO) + ['*.py'], 'prebuilt_not_from_repo': PREBUILT}


def child_env(dest, extra=None):
    env = dict(os.environ)
    env['PYTHONPATH'] = dest + os.pathsep + os.path.dirname(HERE)
    env['OPENBLAS_NUM_THREADS'] = '1'
    env['OMP_NUM_THREADS'] = '1'
    env.setdefault('PYTHONHASHSEED', '0')
    env['PYTHONDONTWRITEBYTECODE'] = '1'
    env['VERIF_BUILD_DIR'] = dest
    if extra:
        env.update(extra)
    return env


if __name__ == '__main__':
    import json
    import tempfile
    d = sys.argv[1] if len(sys.argv) > 1 else tempfile.mkdtemp(prefix='vbuild-')
    fl = sys.argv[2] if len(sys.argv) > 2 else 'plain'
    print(json.dumps(build(d, fl), indent=1))
