"""Sensitivity self-test (DESIGN 2.10): every patch in /verif/mutants is applied to a scratch copy of
the /repo tree, the quick check of the property it breaks is run against that copy and must exit 1
with a VIOLATION line.  The scratch copy is removed afterwards.  Results -> mutants/results.json."""
import json
import os
import shutil
import subprocess
import sys
import tempfile
import time

VERIF = os.path.dirname(os.path.dirname(os.path.abspath(__file__)))
REPO = '/repo'


def main(argv):
    mdir = os.path.join(VERIF, 'mutants')
    patches = sorted(f for f in os.listdir(mdir) if f.endswith('.patch'))
    if argv:
        patches = [p for p in patches if any(a in p for a in argv)]
    results = {}
    rpath = os.path.join(mdir, 'results.json')
    if argv and os.path.exists(rpath):
        results = json.load(open(rpath))          # partial run: keep the other entries
    results = {k: v for k, v in results.items() if os.path.exists(os.path.join(mdir, k))}
    bad = 0
    for pf in patches:
        prop = pf.split('-', 1)[0]
        tmp = tempfile.mkdtemp(prefix='vsens-')
        wt = os.path.join(tmp, 'w')
        t0 = time.time()
        try:
            subprocess.check_call(['git', '-C', REPO, 'worktree', 'add', '-q', '--detach', wt, 'HEAD'])
            r = subprocess.run(['git', '-C', wt, 'apply', os.path.join(mdir, pf)], stdout=subprocess.PIPE, stderr=subprocess.STDOUT, text=True)
            if r.returncode:
                print('%-45s PATCH DOES NOT APPLY: %s' % (pf, r.stdout.strip()[:200]))
                results[pf] = {'applied': False}
                bad += 1
                continue
            env = dict(os.environ, VERIF_REPO=wt, VERIF_SENSITIVITY='1', VERIF_MAX_REPORT='2',
                       VERIF_EVIDENCE_DIR=os.path.join(tmp, 'evidence'), VERIF_REPLAY_DIR=os.path.join(tmp, 'replays'))
            env.setdefault('VERIF_WALL', '60')
            p = subprocess.run([os.path.join(VERIF, 'vcheck'), prop, 'quick'], stdout=subprocess.PIPE, stderr=subprocess.STDOUT, text=True, env=env, cwd=VERIF)
            viol = [ln for ln in p.stdout.split('\n') if ln.startswith('VIOLATION ')]
            classes = [ln.strip()[7:] for ln in p.stdout.split('\n') if ln.strip().startswith('class: ')]
            caught = p.returncode == 1 and bool(viol)
            results[pf] = {'applied': True, 'property': prop, 'exit': p.returncode, 'caught': caught, 'classes': classes[:3],
                           'seconds': round(time.time() - t0, 1)}
            print('%-45s %s exit=%d %s (%.0fs)' % (pf, 'CAUGHT' if caught else 'MISSED', p.returncode, classes[:2], time.time() - t0), flush=True)
            if not caught:
                bad += 1
                if os.environ.get('VERIF_DEBUG'):
                    print(p.stdout[-2000:])
            # replay files written for mutants are not findings of the real tree
            for ln in viol:
                path = ln.split('replay=')[-1].strip()
                if os.path.exists(path):
                    os.unlink(path)
        finally:
            subprocess.call(['git', '-C', REPO, 'worktree', 'remove', '--force', wt], stdout=subprocess.DEVNULL, stderr=subprocess.DEVNULL)
            shutil.rmtree(tmp, ignore_errors=True)
    with open(os.path.join(mdir, 'results.json'), 'w') as fh:
        json.dump(results, fh, indent=1, sort_keys=True)
    print('sensitivity: %d mutants, %d not caught' % (len(patches), bad))
    return 0 if bad == 0 else 1
